#!/bin/bash
# Idempotent offline bootstrap: 3.12 venv with z3 + jsonschema, overlaying /venv's site-packages (ptera deps).
set -e
cd "$(dirname "$0")"
if [ -x .venv/bin/python ] && .venv/bin/python -c "import z3, jsonschema, ptera" >/dev/null 2>&1; then
  exit 0
fi
rm -rf .venv
/venv/bin/python -m venv .venv
PIP_NO_INDEX=1 .venv/bin/python -m pip install -q --no-index --find-links /opt/veriftools/wheels z3-solver jsonschema
echo "import site; site.addsitedir('/venv/lib/python3.12/site-packages')" > .venv/lib/python3.12/site-packages/_repo_overlay.pth
.venv/bin/python -c "import z3, jsonschema, ptera; print('setup ok', z3.get_version_string())"
