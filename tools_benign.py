#!/usr/bin/env python3
"""Maintenance script (not a check): behaviour-preserving refactorings of /repo/ptera (benign/*.diff, written by independent
sub-agents, suite 269 passed with each) are applied to a scratch copy; every registered quick check must still exit 0 without a
VIOLATION line -- a violation here is a FALSE ALARM of the machinery (brittle contract) and has to be corrected in the contract.
usage: tools_benign.py [name-prefix ...]"""
import json, os, re, shutil, subprocess, sys, tempfile
ROOT = os.path.dirname(os.path.abspath(__file__))
VENV_PY = os.path.join(ROOT, ".venv/bin/python")
REPORT = os.environ.get("BENIGN_REPORT") or os.path.join(ROOT, "benign", "report.json")
BENIGN = os.path.join(ROOT, "benign")
# the run takes a while: work on a snapshot of the machinery so that edits made meanwhile do not interfere
SNAP = tempfile.mkdtemp(prefix="pvc_benign_snap_")
subprocess.run(["rsync", "-a", "--exclude", ".venv", "--exclude", "out", "--exclude", ".git", "--exclude", "mutation", ROOT + "/", SNAP + "/"], check=True)
ROOT = SNAP
REPO_SNAP = tempfile.mkdtemp(prefix="pvc_benign_repo_")
subprocess.run("git -C /repo archive HEAD ptera | tar -x -C " + REPO_SNAP, shell=True, check=True)  # committed tree at the start of the run
props = [c["property_id"] for c in json.load(open(os.path.join(ROOT, "MANIFEST.json")))["checks"]]
rows = []
for d in sorted(os.listdir(BENIGN)):
    if not d.endswith(".diff") or (sys.argv[1:] and not any(d.startswith(a) for a in sys.argv[1:])):
        continue
    tmp = tempfile.mkdtemp(prefix="pvc_benign_")
    try:
        shutil.copytree(os.path.join(REPO_SNAP, "ptera"), os.path.join(tmp, "ptera"))
        p = subprocess.run(["patch", "-p1", "-s", "-d", tmp, "-i", os.path.join(BENIGN, d)], capture_output=True, text=True)
        if p.returncode != 0:
            rows.append((d, "does-not-apply", []))
            continue
        bad = []
        for prop in props:
            env = {**os.environ, "PVC_REPO": tmp, "PVC_EVIDENCE_DIR": os.path.join(tmp, "evidence"), "PVC_CANARY": "0", "PTERA_VERIF": "1"}
            r = subprocess.run([VENV_PY, "-m", "pvc.driver", prop, "quick"], cwd=ROOT, env=env, capture_output=True, text=True, timeout=1200)
            und = re.search(r"undecided=([1-9]\d*)", r.stdout)
            if r.returncode != 0 or "VIOLATION" in r.stdout:
                bad.append((prop, r.returncode, [re.sub(r".*replay=\S*/", "", l) for l in r.stdout.splitlines() if l.startswith("VIOLATION")][:4], r.stderr[-300:] if r.returncode not in (0, 1) else ""))
            elif und:
                bad.append((prop, "undecided", und.group(1)))
        false_alarm = any(b[1] != "undecided" for b in bad)
        rows.append((d, "ok" if not bad else ("FALSE-ALARM" if false_alarm else "undecided-only"), bad))
        print(rows[-1], flush=True)
    finally:
        shutil.rmtree(tmp, ignore_errors=True)
json.dump(rows, open(REPORT, "w"), indent=1)
shutil.rmtree(SNAP, ignore_errors=True)
shutil.rmtree(REPO_SNAP, ignore_errors=True)
