"""Native replay / bounded stand-in for C14: a generated module with functions in several placements; every sequence (length
<= MAXLEN) of {activate by name, activate by reference, deactivate innermost, call, resolve, probe cycle on the enclosing function} : the reference always resolves
to that very function and the events by reference equal the events by name."""
import importlib.util
import itertools
import os
import shutil
import sys
import tempfile

sys.path.insert(0, __import__("os").environ.get("PVC_REPO", "/repo"))
from ptera import probing, refstring, select  # noqa: E402

SRC = '''
def top(x):
    y = x + 1
    return y

class A:
    class B:
        def m(self, x):
            y = x + 2
            return y
    def n(self, x):
        y = x + 3
        return y

def outer():
    def inner(x):
        y = x + 4
        return y
    return inner

inner = outer()

def deco(f):
    import functools
    @functools.wraps(f)
    def w(*a):
        return f(*a)
    return w

@deco
def wrapped(x):
    y = x + 5
    return y
'''
MAXLEN = int(sys.argv[1]) if len(sys.argv) > 1 and sys.argv[1].isdigit() else 4
d = tempfile.mkdtemp()
bad = None
known_class = []
COUNTER = [0]


def fresh_module():
    """A fresh copy of the module (own file, own code objects) so that histories do not influence each other."""
    import gc

    import codefind

    # codefind switches to a (possibly stale) cache when its last gc.get_referrers scan took more than 0.1 s; the harness
    # pins the exact path so that the verdict does not depend on the load of the machine (assumption A-gc in DESIGN 10)
    codefind.code_registry.last_cost = 0
    if COUNTER[0] % 50 == 0:
        gc.collect()
    COUNTER[0] += 1
    nm = f"c14mod_{COUNTER[0]}"
    p = os.path.join(d, nm + ".py")
    open(p, "w").write(SRC)
    spec = importlib.util.spec_from_file_location(nm, p)
    mod = importlib.util.module_from_spec(spec)
    sys.modules[nm] = mod
    spec.loader.exec_module(mod)
    return mod


def pick(mod, name):
    return {
        "top": (mod.top, lambda: mod.top(1), 2),
        "A.B.m": (mod.A.B.m, lambda: mod.A.B().m(1), 3),
        "A.n": (mod.A.n, lambda: mod.A().n(1), 4),
        "inner": (mod.inner, lambda: mod.inner(1), 5),
        "wrapped": (mod.wrapped.__wrapped__, lambda: mod.wrapped(1), 6),
    }[name]


try:
    only = [a.split("=", 1)[1] for a in sys.argv if a.startswith("--placement=")]
    targets = {n: None for n in ("top", "A.B.m", "A.n", "inner", "wrapped") if not only or n in only}
    for name in targets:
        for hist in itertools.product("NRXCSO", repeat=MAXLEN):
            depth = 0
            ok = True
            for o in hist:
                depth += o in "NR"
                depth -= o == "X"
                if depth < 0:
                    ok = False
            if not ok or "S" not in hist and "R" not in hist:
                continue
            mod = fresh_module()
            fn, call, val = pick(mod, name)
            ref = refstring(fn)
            for stale in [k for k in sys.modules if k.startswith("c14mod_") and k != mod.__name__]:
                del sys.modules[stale]  # earlier copies can be collected
            stack = []
            try:
                for o in hist:
                    __import__("codefind").code_registry.last_cost = 0
                    if o in "NR":
                        sel = (ref + " > y") if o == "R" else select("fn > y", env={"fn": fn})
                        prb = probing(sel)
                        lst = prb["y"].accum()
                        prb.__enter__()
                        stack.append((prb, lst, []))
                    elif o == "X":
                        prb, lst, exp = stack.pop()
                        prb.__exit__(None, None, None)
                        if lst != exp:
                            bad = (name, hist, f"stream {lst} expected {exp}")
                    elif o == "O":
                        # a complete probe cycle on the ENCLOSING function (re-compiles the code that contains the nested one)
                        with probing("outer > inner", env={"outer": mod.outer}):
                            mod.outer()
                    elif o == "C":
                        call()
                        for _, _, exp in stack:
                            exp.append(val)
                    else:
                        got = select(ref + " > y").element.name
                        if got is not fn:
                            bad = (name, hist, f"{ref} resolved to {got!r}, not to the function itself")
                    if bad:
                        break
            except BaseException as e:  # noqa
                bad = (name, hist, f"{type(e).__name__}: {e}")
            finally:
                while stack:
                    prb, lst, exp = stack.pop()
                    try:
                        prb.__exit__(None, None, None)
                    except BaseException:  # noqa
                        pass
            if bad:
                # witness class of the recorded finding: the nested function is being probed while its ENCLOSING function
                # goes through a probe cycle (transform() re-assimilates the enclosing code and re-points the nested path)
                depth_at_o = [sum((x in "NR") - (x == "X") for x in bad[1][:i]) for i, x in enumerate(bad[1]) if x == "O"]
                if bad[0] == "inner" and any(dd > 0 for dd in depth_at_o):
                    known_class.append(bad)
                    bad = None
                else:
                    break
        if bad:
            break
finally:
    shutil.rmtree(d)
if known_class:
    b = known_class[0]
    print("KNOWN-CLASS nested-active-during-enclosing-probe-cycle:", len(known_class), "histories, e.g. placement", b[0], "history", "".join(b[1]), "->", b[2])
if "--known-only" in sys.argv:
    sys.exit(1 if known_class else 0)
if bad:
    print("placement", bad[0], "history", "".join(bad[1]), "(N=probe by name, R=probe by reference, X=deactivate, C=call, S=resolve, O=probe cycle on the enclosing function):", bad[2])
    sys.exit(1)
print("no disagreement")
sys.exit(0)
