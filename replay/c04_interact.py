"""Native replay for the contract of Interactor.interact (WorkingFrame.intercept/log/trigger): enumerate two or
three handler entries on the REAL code -- which match, which have tags/intercept/trigger, what each intercept
returns -- and compare the result, the exception and the order of handler calls with the property's meaning."""
import itertools
import sys
from collections import defaultdict

sys.path.insert(0, __import__("os").environ.get("PVC_REPO", "/repo"))
import ptera.interpret as pi  # noqa: E402
from ptera.utils import ABSENT  # noqa: E402
from ptera.transform import PteraNameError  # noqa: E402


class El:
    def __init__(self, i, match, tags):
        self.i, self.name, self.category, self.tags = i, ("x" if match else "other"), None, (frozenset({1}) if tags else frozenset())
        self.capture = "x"


class Acc:
    def __init__(self, i, events, has_i, has_t, ret):
        self.i, self.events, self.ret = i, events, ret
        if not has_i:
            self.intercept = None
        if not has_t:
            self.trigger = None

    def accumulator_for(self, el):
        return self

    def intercept(self, el, varname, cat, tentative):
        self.events.append(("intercept", self.i, tentative))
        return self.ret

    def log(self, el, varname, cat, value):
        self.events.append(("log", self.i, value))

    def trigger(self, el):
        self.events.append(("trigger", self.i))


def fn():
    pass


fn.__ptera_info__ = {"x": {"provenance": "body", "annotation": ABSENT}}
bad = None
opts = list(itertools.product([False, True], [False, True], [False, True], [False, True], [ABSENT, "R"]))
for n in (1, 2, 3):
    for combo in itertools.product(opts, repeat=n):
        if n == 3 and not all(c[0] for c in combo):
            continue
        for value, ovr in itertools.product([7, ABSENT], [True, False]):
            events = []
            entries = []
            for i, (match, tags, has_i, has_t, ret) in enumerate(combo):
                entries.append((El(i, match, tags), Acc(i, events, has_i, has_t, f"R{i}" if ret == "R" else ABSENT)))
            accs = defaultdict(list)
            accs["x"] = entries
            itor = pi.Interactor(fn, accs)
            try:
                got = ("ok", itor.interact("x", None, None, value, ovr))
            except pi.OverrideException:
                got = ("OverrideException", None)
            except PteraNameError:
                got = ("PteraNameError", None)
            except BaseException as e:  # noqa
                got = (type(e).__name__, None)
            exp_events, r = [], ABSENT
            for i, (match, tags, has_i, has_t, ret) in enumerate(combo):
                if match and tags and has_i:
                    exp_events.append(("intercept", i, value))
                    if ret == "R":
                        r = f"R{i}"
            if r is not ABSENT and not ovr:
                exp = ("OverrideException", None)
            else:
                final = r if r is not ABSENT else value
                if final is ABSENT:
                    exp = ("PteraNameError", None)
                else:
                    exp = ("ok", final)
                    exp_events += [("log", i, final) for i, c in enumerate(combo) if c[0]]
                    exp_events += [("trigger", i) for i, c in enumerate(combo) if c[0] and c[1] and c[3]]
            if got != exp or events != exp_events:
                bad = (combo, value, ovr, got, exp, events, exp_events)
                break
        if bad:
            break
    if bad:
        break
if bad:
    print("interact disagrees with its contract; entries (match,tags,has_intercept,has_trigger,intercept-returns):", bad[0])
    print(" value", bad[1], "overridable", bad[2], "\n got", bad[3], "expected", bad[4], "\n calls   ", bad[5], "\n expected", bad[6])
    sys.exit(1)
print("no disagreement found")
sys.exit(0)
