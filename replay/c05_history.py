"""Native replay / bounded stand-in for C05: every properly nested (LIFO) history of length <= 6 over three probes on
one function {enter p, leave innermost, call}: each active probe receives each matching event exactly once, inactive
ones none; at quiescence the function runs its original code object and no handler is installed."""
import itertools
import sys

sys.path.insert(0, __import__("os").environ.get("PVC_REPO", "/repo"))
from ptera import probing  # noqa: E402
from ptera.overlay import HandlerCollection  # noqa: E402


def f(x):
    a = x + 1
    b = a * 2
    return b


SELS = ["f > a", "f > b", "f(a) > b"]
EXPECT = {"f > a": lambda x: {"a": x + 1}, "f > b": lambda x: {"b": (x + 1) * 2}, "f(a) > b": lambda x: {"a": x + 1, "b": (x + 1) * 2}}
orig = f.__code__
MAXLEN = int(sys.argv[1]) if len(sys.argv) > 1 else 6
ops = ["e0", "e1", "e2", "x", "c"]
bad = None
count = 0
for n in range(1, MAXLEN + 1):
    for hist in itertools.product(ops, repeat=n):
        depth = 0
        ok = True
        for o in hist:
            if o[0] == "e":
                depth += 1
            elif o == "x":
                depth -= 1
                if depth < 0:
                    ok = False
                    break
        if not ok or "c" not in hist:
            continue
        count += 1
        stack, got, exp = [], [], []
        x = 0
        try:
            for o in hist:
                if o[0] == "e":
                    sel = SELS[int(o[1])]
                    p = probing(sel)
                    lst = p.accum()
                    p.__enter__()
                    e = []
                    stack.append((p, sel))
                    got.append(lst)
                    exp.append(e)
                    stack[-1] = (p, sel, e)
                elif o == "x":
                    p, sel, e = stack.pop()
                    p.__exit__(None, None, None)
                else:
                    x += 1
                    f(x)
                    for p, sel, e in stack:
                        e.append(EXPECT[sel](x))
            while stack:
                p, sel, e = stack.pop()
                p.__exit__(None, None, None)
        except BaseException as ex:  # noqa
            bad = (hist, f"exception {type(ex).__name__}: {ex}")
            break
        if got != exp:
            bad = (hist, f"streams {got} expected {exp}")
            break
        st = getattr(f, "__ptera_stack__", None)
        if f.__code__ is not orig or (st is not None and (st.instrument_count != 0 or any(v != 0 for v in st.captures.values()))):
            bad = (hist, "function not back on its original code / counters left over")
            break
        cur = HandlerCollection.current.get()
        if cur is not None and cur.handler_pairs:
            bad = (hist, "handlers left installed")
            break
    if bad:
        break
if bad:
    print("history", " ".join(bad[0]), "->", bad[1], "(e<i> = enter probe", SELS, ", x = leave innermost, c = call)")
    sys.exit(1)
print(f"{count} histories checked, no disagreement")
sys.exit(0)
