"""Bounded native check of the generator shell of ptera.overlay.proceed (`yielding`, `delegating`):

1. transparency (C01, C06): for a corpus of delegate generators and every sequence (length <= MAXLEN) of consumer operations
   {next, send(v), throw(E), close}, a generator written with `yield from proceed.yielding(frame, v)` / `yield from
   proceed.delegating(frame, it)` behaves exactly like the one written with `yield v` / `yield from it`: same yielded values, same
   results of send, same exception types, same return value, same effects in the delegate (PEP 380);
2. handlers (C09, C05): at every point where the CONSUMER runs (after each operation returns or raises) the current collection is
   the one the consumer had, whatever the consumer installed in between; while the generator's own code runs the current collection
   is the activation's inner one; after the activation ended nothing of it remains installed.
The functions under test are the real ones of the tree in PVC_REPO.  Exit 1 with the first disagreement."""
import itertools
import os
import sys

sys.path.insert(0, os.environ.get("PVC_REPO", "/repo"))
from ptera.overlay import HandlerCollection, proceed  # noqa: E402

MAXLEN = int(sys.argv[1]) if len(sys.argv) > 1 and sys.argv[1].isdigit() else 4
CUR = HandlerCollection.current


class Cancelled(BaseException):
    pass


class Frame:
    """What proceed.__enter__ hands to the instrumented code: an object with `outer` and `inner`."""

    def __init__(self, inner):
        self.outer = CUR.get()
        self.inner = inner


LOG = []


def delegate_plain():
    LOG.append("d-start")
    try:
        r = yield "d1"
        LOG.append(("d-got", r))
        r = yield "d2"
        LOG.append(("d-got", r))
    except KeyError as e:
        LOG.append(("d-caught", type(e).__name__))
        yield "d-after-catch"
    except Cancelled:
        LOG.append("d-cancelled")
        raise
    finally:
        LOG.append("d-finally")
    return "d-result"


def delegate_empty():
    LOG.append("e-start")
    return "e-result"
    yield  # noqa


class PlainIterator:
    """An iterator that is not a generator: no send / throw / close."""

    def __init__(self):
        self.n = 0

    def __iter__(self):
        return self

    def __next__(self):
        self.n += 1
        if self.n > 2:
            raise StopIteration
        LOG.append(("it", self.n))
        return self.n


def make(kind, mode, frame, seen):
    """The generator under test (mode 'ptera') or its reference (mode 'python')."""
    def note_inner():
        seen.append(("inner-running", CUR.get() is frame.inner if mode == "ptera" else True))

    if kind == "yields" and mode == "python":
        def g():
            note_inner()
            try:
                a = yield "y1"
            except ValueError:
                LOG.append("g-caught")
                note_inner()
                a = "caught"
            note_inner()
            b = yield ("y2", a)
            note_inner()
            return ("done", a, b)
    elif kind == "yields":
        def g():
            note_inner()
            try:
                a = yield from proceed.yielding(frame, "y1")
            except ValueError:
                LOG.append("g-caught")
                note_inner()
                a = "caught"
            note_inner()
            b = yield from proceed.yielding(frame, ("y2", a))
            note_inner()
            return ("done", a, b)
    else:
        src = {"delegate": delegate_plain, "empty": delegate_empty, "iterator": PlainIterator}[kind]
        if mode == "python":
            def g():
                note_inner()
                r = yield from src()
                note_inner()
                LOG.append(("g-result", r))
                z = yield "tail"
                return (r, z)
        else:
            def g():
                note_inner()
                r = yield from proceed.delegating(frame, src())
                note_inner()
                LOG.append(("g-result", r))
                z = yield from proceed.yielding(frame, "tail")
                return (r, z)
    return g()


OPS = ["next", "send", "send-falsy", "throw-V", "throw-K", "throw-B", "close"]


def drive(kind, mode, ops):
    del LOG[:]
    base = HandlerCollection([("base", "base")])
    CUR.set(base)
    inner = HandlerCollection([("inner", "inner")])
    frame = Frame(inner)
    seen = []
    trace = []
    problems = []
    expected_outer = base
    if mode == "ptera":
        CUR.set(inner)  # what proceed.__enter__ does; the generator body starts at the first next()
    started = False
    gen = make(kind, mode, frame, seen)
    if mode == "ptera":
        # a generator function's body (and so `with proceed`) only starts at the first operation: emulate __enter__ there
        CUR.set(base)
    for i, op in enumerate(ops):
        if mode == "ptera":
            # the consumer may have installed something else since the last operation
            consumer = HandlerCollection([("consumer", i)]) if i % 2 else CUR.get()
            CUR.set(consumer)
            expected_outer = consumer
            if not started:
                frame.outer = CUR.get()
                CUR.set(inner)  # __enter__
        try:
            if op == "next":
                out = ("yielded", next(gen))
            elif op == "send":
                out = ("yielded", gen.send(("sent", i)) if started else next(gen))
            elif op == "send-falsy":
                # a value that is false but is not None is a value like any other
                out = ("yielded", gen.send([0, "", False, 0.0][i % 4]) if started else next(gen))
            elif op == "throw-B":
                # an exception that is not an Exception (KeyboardInterrupt, a cancellation) is forwarded to the delegate like any other
                out = ("yielded", gen.throw(Cancelled("b")))
            elif op == "throw-V":
                out = ("yielded", gen.throw(ValueError("v")))
            elif op == "throw-K":
                out = ("yielded", gen.throw(KeyError("k")))
            else:
                out = ("closed", gen.close())
            ended = op == "close"
        except StopIteration as e:
            out = ("returned", e.value)
            ended = True
        except BaseException as e:  # noqa
            out = ("raised", type(e).__name__)
            ended = True
        started = True
        if mode == "ptera":
            if ended and CUR.get() is inner:
                CUR.set(frame.outer)  # __exit__ (runs when the generator's frame unwinds; emulated here at the same moment)
            if CUR.get() is not expected_outer:
                problems.append(f"after operation {i} ({op}) the consumer's collection is {CUR.get().handler_pairs if CUR.get() else None}, expected {expected_outer.handler_pairs}")
        trace.append(out)
        if ended:
            break
    if mode == "ptera" and not all(ok for _, ok in seen):
        problems.append("the generator's own code ran while its inner collection was not current")
    return trace, list(LOG), problems


bad = None
count = 0
for kind in ("yields", "delegate", "empty", "iterator"):
    for n in range(1, MAXLEN + 1):
        for ops in itertools.product(OPS, repeat=n):
            count += 1
            ref = drive(kind, "python", ops)
            got = drive(kind, "ptera", ops)
            if ref[0] != got[0] or ref[1] != got[1]:
                bad = f"{kind} under {'/'.join(ops)}: `yield` gives {ref[0]} effects {ref[1]}; through the frame {got[0]} effects {got[1]}"
            elif got[2]:
                bad = f"{kind} under {'/'.join(ops)}: {got[2][0]}"
            if bad:
                break
        if bad:
            break
    if bad:
        break
print(f"{count} (generator, operation sequence) pairs compared")
if bad:
    print(bad)
    sys.exit(1)
print("no disagreement")
sys.exit(0)
