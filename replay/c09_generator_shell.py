"""Bounded native check of the generator shell of ptera.overlay.proceed (`yielding`, `delegating`):

1. transparency (C01, C06): for a corpus of delegate generators and every sequence (length <= MAXLEN) of consumer operations
   {next, send(v), throw(E), close}, a generator written with `yield from proceed.yielding(frame, v)` / `yield from
   proceed.delegating(frame, it)` behaves exactly like the one written with `yield v` / `yield from it`: same yielded values, same
   results of send, same exception types, same return value, same effects in the delegate (PEP 380);
2. handlers (C09, C05): at every point where the CONSUMER runs (after each operation returns or raises) the current collection is
   the one the consumer had, whatever the consumer installed in between; while the generator's own code runs the current collection
   is the activation's inner one; after the activation ended nothing of it remains installed.
The functions under test are the real ones of the tree in PVC_REPO.  Exit 1 with the first disagreement."""
import itertools
import os
import sys

sys.path.insert(0, os.environ.get("PVC_REPO", "/repo"))
from ptera.overlay import HandlerCollection, proceed  # noqa: E402

MAXLEN = int(sys.argv[1]) if len(sys.argv) > 1 and sys.argv[1].isdigit() else 4
CUR = HandlerCollection.current


class Cancelled(BaseException):
    pass


def _fn():
    """The instrumented function (no selector is pending for it: proceed(fn) finds nothing to register)."""


class Holder:
    """Where the generator under test publishes the frame `with proceed(fn) as frame` gave it."""
    frame = None


LOG = []
DELEGATE_SEEN = []  # (is the collection of the delegating activation current while the delegate's code runs?)
HOLDER = [None]


def note_delegate():
    h = HOLDER[0]
    if h is not None and h.frame is not None:
        DELEGATE_SEEN.append(CUR.get() is h.frame.inner)


def delegate_plain():
    LOG.append("d-start")
    note_delegate()
    try:
        r = yield "d1"
        note_delegate()
        LOG.append(("d-got", r))
        r = yield "d2"
        note_delegate()
        LOG.append(("d-got", r))
    except KeyError as e:
        note_delegate()
        LOG.append(("d-caught", type(e).__name__))
        yield "d-after-catch"
    except Cancelled:
        LOG.append("d-cancelled")
        raise
    finally:
        LOG.append("d-finally")
    return "d-result"


def delegate_empty():
    LOG.append("e-start")
    return "e-result"
    yield  # noqa


class PlainIterator:
    """An iterator that is not a generator: no send / throw / close."""

    def __init__(self):
        self.n = 0

    def __iter__(self):
        return self

    def __next__(self):
        self.n += 1
        note_delegate()
        if self.n > 2:
            raise StopIteration
        LOG.append(("it", self.n))
        return self.n


def make(kind, mode, holder, seen):
    """The generator under test (mode 'ptera': its body runs inside the real `with proceed(fn) as frame`, its yields go through the
    frame's helpers) or its reference (mode 'python')."""
    def note_inner():
        seen.append(("inner-running", CUR.get() is holder.frame.inner if mode == "ptera" else True))

    if kind == "yields" and mode == "python":
        def g():
            note_inner()
            try:
                a = yield "y1"
            except ValueError:
                LOG.append("g-caught")
                note_inner()
                a = "caught"
            note_inner()
            b = yield ("y2", a)
            note_inner()
            return ("done", a, b)
    elif kind == "yields":
        def g():
            with proceed(_fn) as frame:
                holder.frame = frame
                note_inner()
                try:
                    a = yield from proceed.yielding(frame, "y1")
                except ValueError:
                    LOG.append("g-caught")
                    note_inner()
                    a = "caught"
                note_inner()
                b = yield from proceed.yielding(frame, ("y2", a))
                note_inner()
                return ("done", a, b)
    else:
        src = {"delegate": delegate_plain, "empty": delegate_empty, "iterator": PlainIterator}[kind]
        if mode == "python":
            def g():
                note_inner()
                r = yield from src()
                note_inner()
                LOG.append(("g-result", r))
                z = yield "tail"
                return (r, z)
        else:
            def g():
                with proceed(_fn) as frame:
                    holder.frame = frame
                    note_inner()
                    r = yield from proceed.delegating(frame, src())
                    note_inner()
                    LOG.append(("g-result", r))
                    z = yield from proceed.yielding(frame, "tail")
                    return (r, z)
    return g()


OPS = ["next", "send", "send-falsy", "throw-V", "throw-K", "throw-B", "close"]


def drive(kind, mode, ops):
    del LOG[:]
    base = HandlerCollection([])
    CUR.set(base)
    holder = Holder()
    HOLDER[0] = holder if mode == "ptera" else None
    del DELEGATE_SEEN[:]
    seen = []
    trace = []
    problems = []
    started = False
    gen = make(kind, mode, holder, seen)
    for i, op in enumerate(ops):
        # the consumer may have installed something else (or nothing at all) since the last operation
        consumer = [CUR.get(), HandlerCollection([]), None][i % 3]
        CUR.set(consumer)
        try:
            if op == "next":
                out = ("yielded", next(gen))
            elif op == "send":
                out = ("yielded", gen.send(("sent", i)) if started else next(gen))
            elif op == "send-falsy":
                # a value that is false but is not None is a value like any other
                out = ("yielded", gen.send([0, "", False, 0.0][i % 4]) if started else next(gen))
            elif op == "throw-B":
                # an exception that is not an Exception (KeyboardInterrupt, a cancellation) is forwarded to the delegate like any other
                out = ("yielded", gen.throw(Cancelled("b")))
            elif op == "throw-V":
                out = ("yielded", gen.throw(ValueError("v")))
            elif op == "throw-K":
                out = ("yielded", gen.throw(KeyError("k")))
            else:
                out = ("closed", gen.close())
            ended = op == "close"
        except StopIteration as e:
            out = ("returned", e.value)
            ended = True
        except BaseException as e:  # noqa
            out = ("raised", type(e).__name__)
            ended = True
        started = True
        if CUR.get() is not consumer:
            problems.append(f"after operation {i} ({op}) the consumer's collection is not the one it had before the operation")
        trace.append(out)
        if ended:
            break
    if mode == "ptera" and not all(ok for _, ok in seen):
        problems.append("the generator's own code ran while its inner collection was not current")
    if mode == "ptera" and not all(DELEGATE_SEEN):
        # what the generator delegates to runs as part of its activation (selectors that go through the generator apply to it)
        problems.append("the delegate's code ran while the collection of the delegating activation was not current")
    # dropping a generator that is still suspended closes it: the surrounding code keeps its collection
    last = HandlerCollection([])
    CUR.set(last)
    del gen  # (reference counting finalises it at once)
    if CUR.get() is not last:
        problems.append("dropping the suspended generator changed the collection of the surrounding code")
    return trace, list(LOG), problems


bad = None
count = 0
for kind in ("yields", "delegate", "empty", "iterator"):
    for n in range(1, MAXLEN + 1):
        for ops in itertools.product(OPS, repeat=n):
            count += 1
            ref = drive(kind, "python", ops)
            got = drive(kind, "ptera", ops)
            if ref[0] != got[0] or ref[1] != got[1]:
                bad = f"{kind} under {'/'.join(ops)}: `yield` gives {ref[0]} effects {ref[1]}; through the frame {got[0]} effects {got[1]}"
            elif got[2]:
                bad = f"{kind} under {'/'.join(ops)}: {got[2][0]}"
            if bad:
                break
        if bad:
            break
    if bad:
        break

def rec(n, frames):
    """A recursive generator: its body advances another live generator of the SAME function."""
    with proceed(_fn) as frame:
        frames.append(frame)
        yield from proceed.yielding(frame, ("own", n))
        if n:
            for v in rec(n - 1, frames):
                yield from proceed.yielding(frame, v)
        yield from proceed.yielding(frame, ("end", n))


def stage(src, frames):
    """A pipeline stage: advances the generator it was given (possibly already started by the driver)."""
    with proceed(_fn) as frame:
        frames.append(frame)
        for v in src:
            yield from proceed.yielding(frame, v)


def nested_same_function():
    """Several live activations of one function, one advancing the other, the consumer changing its collection between the operations:
    every activation has its own bookkeeping (what to go back to, what is its own)."""
    for build in ("recursive", "pipeline"):
        for n_ops in range(1, 8):
            for close_at_end in (False, True):
                frames = []
                CUR.set(HandlerCollection([]))
                if build == "recursive":
                    g = rec(2, frames)
                else:
                    inner = stage(iter([1, 2, 3]), frames)
                    next(inner)  # primed by the driver
                    g = stage(inner, frames)
                for i in range(n_ops):
                    consumer = [CUR.get(), HandlerCollection([]), None][i % 3]
                    CUR.set(consumer)
                    try:
                        next(g)
                    except StopIteration:
                        pass
                    if CUR.get() is not consumer:
                        return f"{build}: after next number {i + 1} the consumer's collection is not the one it had"
                last = HandlerCollection([])
                CUR.set(last)
                if close_at_end:
                    g.close()
                del g
                if build == "pipeline":
                    inner.close()
                if CUR.get() is not last:
                    return f"{build}: closing / dropping after {n_ops} operations changed the collection of the surrounding code"
                if len({id(f) for f in frames}) != len(frames):
                    return f"{build}: two activations share one frame object"
    return None


if not bad:
    bad = nested_same_function()
print(f"{count} (generator, operation sequence) pairs compared")
if bad:
    print(bad)
    sys.exit(1)
print("no disagreement")
sys.exit(0)
