"""Native replay for C12/check_captures*: search a small input space for a disagreement between the real
Selector.check_captures and the property's meaning (skip constrained variables not captured yet;
every captured value must satisfy == or the predicate).  Exit 1 and print the input if one is found."""
import itertools
import sys

sys.path.insert(0, __import__("os").environ.get("PVC_REPO", "/repo"))
from ptera.selector import Element, Call, MatchFunction  # noqa: E402
from ptera.interpret import Capture  # noqa: E402

mf = MatchFunction(lambda x: x > 1)
VALUES = [1, 2, mf]


def ref(all_values, caps):
    for v in all_values:
        if v.capture in caps:
            for x in caps[v.capture].values:
                ok = v.value.fn(x) if isinstance(v.value, MatchFunction) else (v.value == x)
                if not ok:
                    return False
    return True


def mkcap(key, vals):
    c = Capture(Element(name=key, capture=key))
    c.names = [key] * len(vals)
    c.values = list(vals)
    return c


bad = None
for n in (1, 2):
    for spec in itertools.product(itertools.product("ab", range(len(VALUES))), repeat=n):
        els = tuple(Element(name=k, capture=k, value=VALUES[vi]) for k, vi in spec)
        sel = Call(element=Element(name=None), captures=els)
        for keys in ([], ["a"], ["b"], ["a", "b"]):
            for vals in itertools.product([[], [1], [2], [1, 2], [2, 1]], repeat=len(keys)):
                caps = {k: mkcap(k, v) for k, v in zip(keys, vals)}
                got = sel.check_captures(caps)
                want = ref(sel.all_values, caps)
                if bool(got) != want:
                    bad = (spec, {k: c.values for k, c in caps.items()}, got, want)
                    break
            if bad:
                break
        if bad:
            break
    if bad:
        break
if bad:
    print("check_captures disagrees with the property on constraints", bad[0], "captures", bad[1], "got", bad[2], "want", bad[3])
    sys.exit(1)
print("no disagreement found in the searched space")
sys.exit(0)
