"""Native replay for the contract of HandlerCollection.proceed: enumerate all flag combinations of two pending
(selector, accumulator) pairs on the REAL function and compare with the property's meaning."""
import itertools
import sys

sys.path.insert(0, __import__("os").environ.get("PVC_REPO", "/repo"))
import ptera.overlay as ov  # noqa: E402


class Sel:
    def __init__(self, name, imm, foc, kids, fits):
        self.name, self.immediate, self.focus, self.children, self.fits = name, imm, foc, tuple(kids), fits
        self.capmap = {("capmap", name): ["v"]} if fits else False

    def __repr__(self):
        return self.name


class Acc:
    def __init__(self, name, template):
        self.name, self.template, self.forks, self.close = name, template, [], None

    def fork(self):
        f = Acc(self.name + "'", False)
        self.forks.append(f)
        return f

    def __repr__(self):
        return self.name


def fn():
    pass


regs = []
orig_fits = ov.fits_selector
ov.fits_selector = lambda f, s: s.capmap
orig_reg = ov.Interactor.register
ov.Interactor.register = lambda self, acc, capmap, close_at_exit: regs.append((acc, capmap, close_at_exit))
bad = None
flags = list(itertools.product([False, True], repeat=4))
for f0 in flags:
    for f1 in flags:
        for nk in ((0, 0), (1, 0), (0, 1), (2, 1)):
            ov._selector_fit_cache.clear()
            del regs[:]
            pairs = []
            for i, (fl, k) in enumerate(zip((f0, f1), nk)):
                imm, fits, foc, tmpl = fl
                kids = [Sel(f"child{i}{j}", False, False, [], False) for j in range(k)]
                pairs.append((Sel(f"s{i}", imm, foc, kids, fits), Acc(f"a{i}", tmpl)))
            itor, nxt = ov.HandlerCollection(pairs).proceed(fn)
            exp, expreg = [], []
            for s, a in pairs:
                if not s.immediate:
                    exp.append((s, a))
                if s.fits:
                    a2 = a
                    if s.focus or a.template:
                        a2 = a.forks[0] if len(a.forks) == 1 else None
                    expreg.append((a2, s.capmap, a.template))
                    exp.extend((c, a2) for c in s.children)
            got = nxt.handler_pairs
            ok = len(got) == len(exp) and all(g[0] is e[0] and g[1] is e[1] for g, e in zip(got, exp))
            ok = ok and len(regs) == len(expreg) and all(r[0] is e[0] and r[1] is e[1] and r[2] == e[2] for r, e in zip(regs, expreg))
            if not ok:
                bad = (f0, f1, nk, got, exp, list(regs), expreg)
                break
        if bad:
            break
    if bad:
        break
ov.fits_selector = orig_fits
ov.Interactor.register = orig_reg
if bad:
    print("proceed disagrees with its contract for pairs with (immediate, fits, focus, template) =", bad[0], bad[1], "children", bad[2])
    print(" next pairs:", bad[3], "\n expected  :", bad[4], "\n registered:", bad[5], "\n expected  :", bad[6])
    sys.exit(1)
print("no disagreement found")
sys.exit(0)
