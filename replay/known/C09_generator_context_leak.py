"""KNOWN FINDING (C09): a suspended instrumented generator leaks its call-path context to its driver, and
finalising it after the overlay ended re-installs the dead overlay's handlers."""
import sys
sys.path.insert(0, __import__("os").environ.get("PVC_REPO", "/repo"))
from ptera import tooled, probing
from ptera.overlay import HandlerCollection


@tooled
def g():
    a = 1
    return a


@tooled
def gen():
    yield 1
    yield 2


bad = []
with probing("gen > g > a") as prb:
    got = prb["a"].accum()
    it = gen()
    next(it)
    g()  # called by the DRIVER while gen is suspended: must not match gen > g > a
    if got:
        bad.append(f"driver's g() matched 'gen > g > a' while gen was suspended: {got}")
    del it
it2 = None
with probing("gen > g > a"):
    it2 = gen()
    next(it2)
before = HandlerCollection.current.get()
it2.close()
after = HandlerCollection.current.get()
if after is not before and after is not None and after.handler_pairs:
    bad.append("closing a generator after its overlay ended re-installed %d handler pair(s)" % len(after.handler_pairs))
print("\n".join(bad) or "no leak observed")
sys.exit(1 if bad else 0)
