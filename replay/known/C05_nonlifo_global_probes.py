"""KNOWN FINDING (C05): two global probes deactivated in non-LIFO order: the remaining probe stops receiving
events, and deactivating it afterwards re-installs the first probe's handler."""
import sys
sys.path.insert(0, __import__("os").environ.get("PVC_REPO", "/repo"))
from ptera import global_probe
from ptera.overlay import HandlerCollection


def f(x):
    a = x + 1
    return a


p1 = global_probe("f > a")
l1 = p1["a"].accum()
p2 = global_probe("f > a")
l2 = p2["a"].accum()
f(1)
p1.deactivate()
f(2)
ok = (l1 == [2] and l2 == [2, 3])
p2.deactivate()
cur = HandlerCollection.current.get()
leftover = cur is not None and len(cur.handler_pairs) > 0
print("p1 got", l1, "p2 got", l2, "handlers left after all deactivated:", None if cur is None else len(cur.handler_pairs))
sys.exit(0 if ok and not leftover else 1)
