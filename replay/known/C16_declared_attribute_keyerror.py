"""KNOWN FINDING (C16): `o.y: int` (declared-only attribute target) in a tooled function raises KeyError('o.y')
from PteraNameError.info() instead of the ptera name error."""
import sys
sys.path.insert(0, __import__("os").environ.get("PVC_REPO", "/repo"))
from ptera import tooled
from ptera.transform import PteraNameError


class O:
    pass


@tooled
def f(o):
    o.y: int
    return 1


rc = 0
try:
    f(O())
    print("no error (the declaration is a no-op, as in plain Python)")
except PteraNameError as e:
    print("PteraNameError:", e)
except Exception as e:
    print("reproduced:", type(e).__name__, e)
    rc = 1
sys.exit(rc)
