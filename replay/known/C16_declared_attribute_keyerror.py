"""KNOWN FINDING (C16): `o.y: int` (declared-only attribute target) in a tooled function raises KeyError('o.y')
from PteraNameError.info() instead of the ptera name error."""
import sys
sys.path.insert(0, "/repo")
from ptera import tooled
from ptera.transform import PteraNameError


class O:
    pass


@tooled
def f(o):
    o.y: int
    return 1


try:
    f(O())
    print("no error")
    sys.exit(0)
except PteraNameError as e:
    print("PteraNameError (as the property asks):", e)
    sys.exit(0)
except BaseException as e:
    print("reproduced:", type(e).__name__, e)
    sys.exit(1)
