"""Native demonstrations of the recorded (known) findings on the real ptera of /repo.
usage: python cases.py <case>      exit 1 = the defect reproduces, exit 0 = it does not (fixed)."""
import sys
import types

sys.path.insert(0, __import__("os").environ.get("PVC_REPO", "/repo"))
import ptera  # noqa: E402
from ptera import probing, tooled  # noqa: E402
from ptera.utils import ABSENT  # noqa: E402

LOG = []


def note(x):
    LOG.append(x)
    return x


def compare(fn, args, selector):
    """plain call vs call under a non-overriding probe; returns (plain, probed) outcomes."""
    def run():
        del LOG[:]
        try:
            r = ("ok", fn(*args()))
        except BaseException as e:  # noqa
            r = (type(e).__name__, str(e)[:80])
        return r, list(LOG)

    plain = run()
    try:
        with probing(selector, env={selector.split()[0]: fn}) as prb:
            prb.subscribe(lambda d: None)
            probed = run()
    except BaseException as e:  # noqa
        probed = (("activation:" + type(e).__name__, str(e)[:80]), [])
    return plain, probed


def differs(fn, args, selector):
    plain, probed = compare(fn, args, selector)
    print("plain :", plain)
    print("probed:", probed)
    return plain != probed


# ---- C01 ------------------------------------------------------------------------------------
def tuple_unpack_generator():
    def f(n):
        a, b = (i for i in range(n))
        return a + b
    return differs(f, lambda: (2,), "f > a")


def tuple_unpack_dict():
    def f(d):
        q = 1
        a, b = d
        return a + b
    return differs(f, lambda: ({"x": 1, "y": 2},), "f > q")


def starred_target():
    def f(xs):
        a, *b = xs
        return a, b
    return differs(f, lambda: ([1, 2, 3],), "f > a")


def subscript_index_twice():
    def f(x):
        x[note("idx")] = note("val")
        return x
    return differs(f, lambda: ({},), "f > x")


def annotation_reevaluated():
    def noisy():
        note("annotation evaluated")
        return int

    glb = {"noisy": noisy, "note": note}
    src = "def f(a):\n    x: noisy() = a\n    return x\n"
    import linecache
    import os
    import tempfile
    d = tempfile.mkdtemp()
    p = os.path.join(d, "annmod.py")
    open(p, "w").write(src)
    import importlib.util
    spec = importlib.util.spec_from_file_location("annmod", p)
    mod = importlib.util.module_from_spec(spec)
    mod.noisy = noisy
    spec.loader.exec_module(mod)
    r = differs(mod.f, lambda: (1,), "f > x")
    import shutil
    shutil.rmtree(d)
    return r


def for_target_starred():
    def f(xs):
        out = []
        for a, *b in xs:
            out.append((a, b))
        return out
    return differs(f, lambda: ([[1, 2, 3]],), "f > out")


def for_target_attribute():
    class O:
        pass

    def f(xs, o):
        s = 0
        for o.k in xs:
            s += o.k
        return s
    return differs(f, lambda: ([1, 2], O()), "f > s")


def nonlocal_closure():
    def outer():
        n = 0

        def f(a):
            nonlocal n
            n = n + a
            return n
        return f
    f = outer()
    globals()["f_nl"] = f
    plain = f(1)
    try:
        with probing("f_nl > a", env={"f_nl": f}):
            probed = f(1)
    except BaseException as e:  # noqa
        print("probed:", type(e).__name__, e)
        return True
    print(plain, probed)
    return False


def nested_class_in_function():
    def f(x):
        class A:
            v = 1
        return A.v + x
    return differs(f, lambda: (1,), "f > $v")


def nested_def_in_function():
    def f(x):
        def g():
            return 1
        return g() + x
    return differs(f, lambda: (1,), "f > $v")


def name_bound_in_except_body():
    def f(x):
        try:
            raise ValueError()
        except ValueError:
            inside = x
        return inside
    return differs(f, lambda: (1,), "f > $v")


# ---- C02 ------------------------------------------------------------------------------------
def events_of(fn, args, selector):
    with probing(selector, env={selector.split()[0]: fn, **globals()}) as prb:
        got = prb.accum()
        fn(*args)
    return got


def rhs_walrus_no_event():
    def f(a):
        y = (m := a + 1)
        return y + m
    got = events_of(f, (1,), "f > m")
    print("events for m:", got)
    return got != [{"m": 2}]


def import_dotted_no_event():
    def f():
        import os.path
        return os
    got = events_of(f, (), "f > os")
    print("events for os:", got)
    return len(got) != 1


def with_target_no_event():
    import contextlib

    @contextlib.contextmanager
    def cm():
        yield 5

    def f():
        with cm() as w:
            return w
    globals()["cm"] = cm
    got = events_of(f, (), "f > w")
    print("events for w:", got)
    return got != [{"w": 5}]


def list_target_no_event():
    def f(xs):
        [a, b] = xs
        return a + b
    got = events_of(f, ([1, 2],), "f > a")
    print("events for a:", got)
    return got != [{"a": 1}]


# ---- C06 ------------------------------------------------------------------------------------
def value_on_fallthrough():
    def f(x):
        y = x
    got = events_of(f, (1,), "f > #value")
    print("#value events for a function that falls off the end:", got)
    return len(got) != 1


def rhs_yield_no_events():
    def gen():
        r = yield 1
        return r
    with probing("gen > #yield") as prb:
        got = prb.accum()
        g = gen()
        next(g)
        try:
            g.send(7)
        except StopIteration:
            pass
    print("#yield events:", got)
    return len(got) != 1


# ---- C10 ------------------------------------------------------------------------------------
def select_refused(fn, sel, env):
    try:
        with probing(sel, env=env):
            pass
        return False
    except ptera.selector.SelectorError as e:
        print("refused:", str(e)[:100])
        return True


def except_type_name_refused():
    def f():
        try:
            pass
        except Exception as e:
            pass
        return 1
    return select_refused(f, "f > Exception", {"f": f})


def except_body_name_refused():
    def f(x):
        try:
            pass
        except ValueError:
            inside = 1
        return x
    return select_refused(f, "f > inside", {"f": f})


def nested_def_name_refused():
    def f():
        def g():
            return 1
        return g
    return select_refused(f, "f > g", {"f": f})


# ---- C16 ------------------------------------------------------------------------------------
def declared_only_uninstrumented_returns_marker():
    def f(a):
        x: int
        return x
    with probing("f > a"):
        try:
            r = f(1)
        except BaseException as e:  # noqa
            print(type(e).__name__)
            return False
    print("returned", r)
    return r is ABSENT


def undefined_global_partial_instrumentation_yields_marker():
    src = "def f(a):\n    return (a, UNDEFINED_GLOBAL_XYZ)\n"
    mod = types.ModuleType("m16")
    import os
    import tempfile
    d = tempfile.mkdtemp()
    p = os.path.join(d, "m16.py")
    open(p, "w").write(src)
    import importlib.util
    spec = importlib.util.spec_from_file_location("m16", p)
    mod = importlib.util.module_from_spec(spec)
    spec.loader.exec_module(mod)
    try:
        with probing("f > a", env={"f": mod.f}):
            r = mod.f(1)
    except NameError as e:
        print("NameError (as Python would):", e)
        return False
    finally:
        import shutil
        shutil.rmtree(d)
    print("returned", r)
    return r[1] is ABSENT


def unused_undefined_global_raises():
    import os
    import tempfile
    src = "def f(a):\n    if a:\n        return UNDEFINED_GLOBAL_XYZ\n    return 0\n"
    d = tempfile.mkdtemp()
    p = os.path.join(d, "m16b.py")
    open(p, "w").write(src)
    import importlib.util
    spec = importlib.util.spec_from_file_location("m16b", p)
    mod = importlib.util.module_from_spec(spec)
    spec.loader.exec_module(mod)
    try:
        with probing("f > $x", env={"f": mod.f}):
            r = mod.f(0)
        print("returned", r)
        return False
    except NameError as e:
        print("raised although the name is never used on this path:", type(e).__name__)
        return True
    finally:
        import shutil
        shutil.rmtree(d)


# ---- C13 ------------------------------------------------------------------------------------
def equal_but_distinct_receivers():
    class Box:
        def __init__(self, tag):
            self.tag = tag

        def __eq__(self, other):
            return True

        def __hash__(self):
            return 1

        def put(self, v):
            stored = v
            return stored

    a, b = Box("a"), Box("b")
    with probing("a.put > stored", env={"a": a}) as prb:
        got = prb.accum()
        a.put(1)
        b.put(2)
    print("events for a.put:", got)
    return [e["stored"] for e in got] != [1]


def unhashable_receiver():
    class Bag:
        def __eq__(self, other):
            return self is other

        def put(self, v):
            stored = v
            return stored

    a, b = Bag(), Bag()
    try:
        with probing("a.put > stored", env={"a": a}) as prb:
            got = prb.accum()
            a.put(1)
            b.put(2)
    except TypeError as e:
        print("TypeError at select:", e)
        return True
    print("events:", got)
    return [e["stored"] for e in got] != [1]


# ---- C11 ------------------------------------------------------------------------------------
def tag_hidden_by_later_annotation():
    def f(p: "@A"):
        x: "@A" = 1
        x: "@B" = 2
        p: int = 3
        return x

    bad = False
    for sel, want in [("f > $v:@A", [("p", 0), ("x", 1)]), ("f > x:@A", [("x", 1)]), ("f > $v:@B", [("x", 2)]), ("f > p:@A", [("p", 0)])]:
        try:
            with probing(sel, env={"f": f}, raw=True) as prb:
                got = prb.kmap(lambda **kw: [(c.names[0], c.values[0]) for c in kw.values()][0]).accum()
                f(0)
        except Exception as e:  # noqa
            got = f"{type(e).__name__}: {e}"
        if got != want:
            print(sel, "->", got, "expected", want)
            bad = True
    return bad


# ---- C17 / C05 ------------------------------------------------------------------------------
def completion_error_leaves_probe_active():
    from ptera.overlay import HandlerCollection

    def f(x):
        a = x + 1
        return a

    orig = f.__code__
    seen, done = [], []
    try:
        with probing("f > a") as prb:
            prb["a"].min().subscribe(lambda v: None)  # raises SequenceContainsNoElementsError upon completion
            prb["a"].subscribe(seen.append, on_completed=lambda: done.append(1))
    except Exception as e:  # noqa
        print("with-block left by", type(e).__name__)
    f(1)
    print("events after the block:", seen, "second subscriber completed:", done, "original code:", f.__code__ is orig, "handlers:", HandlerCollection.current.get())
    return seen != [] or done != [1] or f.__code__ is not orig or HandlerCollection.current.get() is not None


def deactivation_inside_a_call_is_undone_at_its_exit():
    """C05 reading of the recorded C09 finding: a probe deactivated WHILE a probed call is running; when that call returns,
    proceed.__exit__ resets the context variable to the collection of its own entry, which still holds the probe's handler."""
    from ptera import global_probe
    from ptera.overlay import HandlerCollection

    def f(x):
        a = x + 1
        b = a * 2
        return b

    first = global_probe("f > a")
    other = global_probe("f > b")
    first["a"].subscribe(lambda v: first.deactivate())
    f(1)
    other.deactivate()
    left = HandlerCollection.current.get()
    print("handlers installed after every probe was deactivated:", None if left is None else len(left.handler_pairs))
    HandlerCollection.current.set(None)
    return left is not None


# ---- C01: the rebuilt function object ---------------------------------------------------------
def method_name_bound_to_none_in_module():
    class A:
        def len(self, xs):
            n = len(xs)
            return n

    a = A()
    g = A.len.__globals__
    had = "len" in g
    try:
        with probing("A.len > n", env={"A": A}) as prb:
            out = a.len([1, 2, 3])
        bad = out != 3
    except TypeError as e:
        print("under the probe:", type(e).__name__, e)
        bad = True
    leaked = ("len" in g) and not had
    print("module global 'len' created:", leaked)
    g.pop("len", None) if leaked else None
    return bad or leaked


def defaults_evaluated_again():
    import itertools
    from ptera import tooled

    c = itertools.count()

    def f(x=next(c), *, k=next(c)):
        return x, k

    plain = f()
    t = tooled(f)()
    print("plain", plain, "tooled", t, "counter now", next(c))
    return t != plain


def tooled_closure_snapshots_cells():
    from ptera import tooled

    def make():
        n = 0

        def inc():
            nonlocal n
            n += 1

        def get():
            v = n
            return v

        return inc, get

    inc, get = make()
    tget = tooled(get)
    inc()
    print("original sees", get(), "tooled sees", tget())
    return get() != tget()


# ---- C02 / C06: nested scopes ------------------------------------------------------------------
def walrus_in_lambda_spurious_event():
    def f1(xs):
        g = lambda: (v := 10)  # noqa
        v = 1
        g()
        return v

    with probing("f1 > v") as prb:
        ev = prb.accum()
        r = f1([1])
    print("returned", r, "events", ev)
    return ev != [{"v": 1}]


def nested_coroutine_value_after_exit():
    def outer3(x):
        async def inner(y):
            return y * 2

        return inner(x)

    got = []
    with probing("outer3 > #value", "outer3 > #exit", raw=True) as prb:
        prb.subscribe(lambda d: got.extend(d.keys()))
        co = outer3(5)
        try:
            co.send(None)
        except StopIteration:
            pass
    print("meta events:", got)
    return got != ["#value", "#exit"]


# ---- C16 ------------------------------------------------------------------------------------
def name_error_info_after_deactivation():
    def f(a):
        y: "@Param"
        return a + y

    try:
        with probing("f > y"):
            f(1)
    except NameError as e:
        err = e
    try:
        info = err.info()
    except Exception as e:  # noqa
        print("info() after the with-block:", type(e).__name__, e)
        return True
    print("info() after the with-block:", info["annotation"], info["provenance"])
    return info["provenance"] != "body"

def attribute_store_focus_on_demand():
    class K:
        def moo(self, x):
            self.x = x
            self.y = x
            return self.x + self.y

    k = K()
    with probing("K.moo > self.x", env={"K": K}, overridable=True) as prb:
        prb.override(lambda d: d["self.x"] + 1)
        r = (k.moo(7), k.x, k.y)
    with probing("K.moo > self.x", env={"K": K}) as prb:
        ev = prb.accum()
        k.moo(3)
    print("overridden call:", r, "plain events:", ev)
    return r != (15, 8, 7) or ev != [{"self.x": 3}]


def overlay_on_tooled_function_keeps_its_events():
    from ptera import tooled
    from ptera.overlay import Overlay

    @tooled
    def f1(x):
        a = x + 1
        b = a * 2
        return b

    with Overlay.tapping("f1 > a") as da:
        f1(1)
        with probing("f1 > b") as prb:
            pb = prb.accum()
            f1(1)
        f1(1)
    print("overlay events:", len(da), "probe events:", pb)
    return len(da) != 3 or pb != [{"b": 4}]


def multiline_string_in_method_altered():
    class A:
        def m(self):
            s = """a
            b"""
            return s

    plain = A().m()
    with probing("A.m > s", env={"A": A}):
        probed = A().m()
    print(repr(plain), repr(probed))
    return plain != probed


# ---- recorded findings reported by independent agents (round 5), not repaired --------------------------------------------
def generator_running_before_activation():
    """C02: an activation that started before the probe keeps running the untransformed code object."""
    def gen(n):
        for i in range(n):
            v = i * 10
            yield v

    g = gen(3)
    next(g)
    with probing("gen > v") as prb:
        ev = prb.accum()
        rest = list(g)
    print("rest", rest, "events", ev)
    return [e["v"] for e in ev] != [10, 20]


def with_item_fails_after_target_bound():
    """C02: `with cm(1) as a, cm(2, fail) as b`: a is bound by the body but no event is delivered (targets reported after all items)."""
    from contextlib import contextmanager

    @contextmanager
    def cm(v, fail=False):
        if fail:
            raise ValueError
        yield v

    def f3():
        try:
            with cm(1) as a, cm(2, True) as b:  # noqa
                pass
        except ValueError:
            pass
        return a

    with probing("f3 > a") as prb:
        ev = prb.accum()
        r = f3()
    print("returned", r, "events", ev)
    return ev != [{"a": 1}]


def finally_overrides_return():
    """C06: #value is emitted at the return statement; a finally clause that returns / raises afterwards is not taken into account."""
    def fin():
        try:
            return 1
        finally:
            return 2  # noqa

    def fin2():
        try:
            return 1
        finally:
            raise KeyError("x")

    bad = False
    for fn, want in ((fin, [2]), (fin2, [])):
        got = []
        with probing("fn > #value", env={"fn": fn}) as prb:
            prb["#value"].subscribe(got.append)
            try:
                fn()
            except KeyError:
                pass
        print(fn.__name__, "#value events", got, "expected", want)
        bad = bad or got != want
    return bad


def same_name_constrained_in_two_frames():
    """C12 / C03: captures are keyed by name; the outer frame's x hides the inner one."""
    from ptera import tooled

    @tooled
    def g(x):
        y = x * 10
        return y

    @tooled
    def f(x):
        return g(x + 1)

    with probing("f(x=1) > g(x=2) > y", env={"f": f, "g": g}) as prb:
        out = prb.accum()
        f(1)
    print("events", out)
    return [e.get("y") for e in out] != [20]


def two_bound_methods_on_one_path():
    """C13 / C03: both receiver constraints are captured under the name `self`; the outer one wins."""
    class Box:
        def __init__(self, n):
            self.n = n

        def meth(self, x):
            v = x + self.n
            return v

        def outer(self, other):
            return other.meth(1)

    a, b = Box(1), Box(2)
    with probing("a.outer > b.meth > v", env={"a": a, "b": b}) as prb:
        ev = prb.accum()
        a.outer(b)
        b.outer(a)
    print("events", [(e.get("v")) for e in ev])
    return [e.get("v") for e in ev] != [3]


def bound_method_subselector_drops_record():
    """C07: the receiver filter of a nested bound-method sub-selector is applied to the whole record."""
    class Animal:
        def __init__(self, name):
            self.name = name

        def cry(self):
            intensity = 1
            return intensity

    cow, crow = Animal("cow"), Animal("crow")

    def farm(x):
        cow.cry()
        crow.cry()
        cow.cry()

    with probing("farm(x) > cow.cry(intensity)", env={"farm": farm, "cow": cow}, raw=True) as prb:
        rec = prb.accum()
        farm(1)
    got = [{k: c.values for k, c in r.items() if k in ("x", "intensity")} for r in rec]
    print("records", got)
    return got != [{"x": [1], "intensity": [1, 1]}]


def hidden_temporaries_keep_generator_alive():
    """C09: the temporaries of an unpacking / chained assignment are never cleared, so `del it` does not finalise the generator
    and its context stays installed in the driver until the driver returns."""
    from ptera import tooled
    from ptera.overlay import Overlay

    @tooled
    def leaf(v):
        x = v
        return x

    @tooled
    def gen():
        a = 1
        yield a
        leaf(100)
        yield a

    @tooled
    def driver_simple():
        it = gen()
        next(it)
        del it
        leaf(1)

    @tooled
    def driver_unpack():
        q, it = 0, gen()
        next(it)
        del it
        leaf(2)

    out = {}
    for d in (driver_simple, driver_unpack):
        with Overlay.tapping("gen > leaf > x") as res:
            d()
        out[d.__name__] = res
    print(out)
    return out["driver_unpack"] != out["driver_simple"]


def same_name_at_two_placements():
    """C14: probing /mod/K/work makes /mod/work resolve to K.work (transform() registers the code under (filename,) only)."""
    import importlib.util
    import os
    import tempfile
    from ptera.selector import select

    d = tempfile.mkdtemp()
    try:
        p = os.path.join(d, "modz_known.py")
        open(p, "w").write("def work(x):\n    a = x + 1\n    return a\n\nclass K:\n    def work(self, x):\n        a = x + 100\n        return a\n")
        spec = importlib.util.spec_from_file_location("modz_known", p)
        mod = importlib.util.module_from_spec(spec)
        sys.modules["modz_known"] = mod
        spec.loader.exec_module(mod)
        before = select("/modz_known/work > a").element.name is mod.work
        with probing("/modz_known/K/work > a"):
            mod.K().work(1)
        after = select("/modz_known/work > a").element.name
        print("before:", before, "after probing K.work, /modz_known/work resolves to", after)
        return not before or after is not mod.work
    finally:
        import shutil
        shutil.rmtree(d)
        sys.modules.pop("modz_known", None)


def absent_marker_in_override_event():
    """C16: the tentative value of a declared-only variable handed to an overridable probe / rewrite callback is the ABSENT marker."""
    from ptera.utils import ABSENT

    def f(a):
        y: int
        return a + y

    seen = []
    with probing("f > y", overridable=True) as prb:
        prb.subscribe(seen.append)
        prb.override(lambda d: 10)
        r = f(1)
    print("returned", r, "event", seen)
    return any(v is ABSENT for e in seen for v in e.values())


def probe_activated_inside_a_call_is_dropped():
    """C05: dual of deactivation_inside_a_call: a global probe activated while a probed call runs loses its handlers when that call returns."""
    from ptera import global_probe

    def g2():
        z = 1
        return z

    res = []
    holder = {}

    def f2(x):
        a = x
        holder["p"] = global_probe("g2 > z", env={"g2": g2})
        holder["p"]["z"].subscribe(res.append)
        g2()
        return a

    with probing("f2 > a"):
        f2(1)
    g2()
    holder["p"].deactivate()
    print("events of the probe activated inside the call:", res)
    return res != [1, 1]

def stale_generator_answer_is_not_remembered():
    """C05/C07/C02: a generator created while its function was probed and advanced after that probe ended, under another overlay on
    the same selector: nothing fits the function at that moment, and that answer must not be remembered for later probes."""
    from ptera import Overlay

    def sf():
        x = 1
        yield x
        x = 2
        yield x

    with probing("sf > x") as p:
        p["x"].accum()
        g = sf()  # created while probed, not started
    with Overlay.tapping("sf > x"):
        next(g)
    with probing("sf > x") as p2:
        out2 = p2["x"].accum()
        list(sf())
    print("later probe on the same selector:", out2)
    return out2 != [1, 2]


def private_names_in_method():
    """C01: a method using names private to its class (self.__v, __helper, a parameter __k) must keep working once instrumented
    (the source is compiled again outside of the class body: the names have to be mangled as the class body mangles them)."""
    class Vault:
        def __init__(self):
            self.__v = 5

        def __half(self, k):
            return k // 2

        def get(self, x, __k=3):
            w = self.__v + self.__half(x) + __k
            return w

    want = Vault().get(4)
    try:
        with probing("Vault.get > w", env={"Vault": Vault}) as p:
            seen = p["w"].accum()
            got = Vault().get(4)
    except Exception as e:  # noqa
        print("probed call failed:", type(e).__name__, e)
        return True
    print("plain", want, "probed", got, seen)
    return (want, [want]) != (got, seen)


def augmented_attribute_store_is_a_binding():
    """C04/C02: `self.x += d` binds self.x like `self.x = ...` does: a probe on `K.bump > self.x` gets one event with the value stored
    and a tweak on it substitutes that value."""
    from ptera import Overlay, select, tooled

    class K:
        def __init__(self):
            self.x = 1

        @tooled
        def bump(self, d):
            self.x += d
            return self.x

    k = K()
    with probing("K.bump > self.x", env={"K": K}) as p:
        seen = p["self.x"].accum()
        k.bump(2)
    k2 = K()
    with Overlay.tweaking({select("K.bump > self.x", env={"K": K}): 50}):
        r = k2.bump(2)
    print("events", seen, "tweaked call returned", r, "attribute", k2.x)
    return seen != [3] or (r, k2.x) != (50, 50)


def match_statement_under_tooling():
    """C01/C10/C02: a function with a match statement keeps working once tooled; the names its patterns bind are locals that can be
    selected, and each binding is reported."""
    def m1(p):
        match p:
            case [a, *rest]:
                return a, rest
            case {"k": v, **others}:
                return v, others
            case str() as s:
                return s

    try:
        full = tooled(m1)([1, 2, 3])
    except Exception as e:  # noqa
        print("tooled call failed:", type(e).__name__, e)
        return True
    out = {}
    for name in ("a", "rest", "v", "others", "s"):
        try:
            with probing(f"m1 > {name}", env={"m1": m1}) as p:
                seen = p[name].accum()
                m1([1, 2, 3]), m1({"k": 1, "z": 2}), m1("q")
            out[name] = (seen, m1.__ptera_info__[name]["provenance"] if hasattr(m1, "__ptera_info__") else tooled(m1).__ptera_info__[name]["provenance"])
        except Exception as e:  # noqa
            out[name] = (type(e).__name__, str(e)[:60])
    print(full, out)
    want = {"a": ([1], "body"), "rest": ([[2, 3]], "body"), "v": ([1], "body"), "others": ([{"z": 2}], "body"), "s": (["q"], "body")}
    return full != (1, [2, 3]) or out != want


def provenance_follows_python_scoping():
    """C10: the recorded provenance agrees with Python's scoping when nested scopes reuse a name or a parameter is bound again."""
    def f1():
        g = lambda y: y  # noqa
        y = 1
        return g(y)

    def f3(e):
        try:
            pass
        except ValueError as e:  # noqa
            pass
        return 1

    def f4(os):
        import os  # noqa
        return os

    bad = []
    for fn, v, want in [(f1, "y", "body"), (f3, "e", "argument"), (f4, "os", "argument")]:
        got = tooled(fn).__ptera_info__[v]["provenance"]
        if got != want:
            bad.append((fn.__name__, v, got, want))
    print("disagreements (function, variable, recorded, python):", bad)
    return bool(bad)


def slice_bounds_evaluated_once():
    """C01/C02: the bounds of a slice target are evaluated once and after the value (`x[lo():] = val()`), and an assignment expression in a
    bound delivers one event."""
    log = []

    def lo():
        log.append("lo")
        return 1

    def val():
        log.append("val")
        return [9]

    def f(x):
        x[lo():] = val()
        return x

    def g(x):
        x[(a := 1):2] = [9]
        return x

    plain = (f([0, 1, 2]), list(log))
    del log[:]
    probed = (tooled(f)([0, 1, 2]), list(log))
    with probing("g > a", env={"g": g}) as p:
        seen = p["a"].accum()
        g([0, 1, 2])
    print("plain", plain, "instrumented", probed, "events for a", seen)
    return plain != probed or seen != [1]


def probe_silenced_when_an_earlier_generator_finishes():
    """C02/C06 (the recorded non-LIFO frame-exit mechanism, seen from another property): a probe activated while a probed generator is
    suspended stops receiving events -- although it is still active -- once that generator finishes."""
    from ptera import global_probe

    def gen2(n):
        for i in range(n):
            x = i * 2
            yield x

    def f3(a):
        y = a + 1
        return y

    pa = global_probe("gen2 > x", env={"gen2": gen2})
    pa.accum()
    it = gen2(2)
    next(it)  # started under probe A, suspended inside its frame
    pb = global_probe("f3 > y", env={"f3": f3})
    rb = pb["y"].accum()
    f3(1)
    list(it)  # the generator finishes: its frame resets the handlers to those of before probe B
    f3(2)
    pb.deactivate()
    pa.deactivate()
    print("events of the probe that was active all along:", rb)
    return rb != [2, 3]


def suspended_generator_in_a_local_outlives_its_frame():
    """C09 (same mechanism): an instrumented function returns while a generator it created is still suspended in one of its locals; the
    generator is finalised after the function's own frame ended and re-installs that frame's inner handlers for the surrounding code."""
    from ptera import Overlay

    @tooled
    def plain(v):
        x = v + 1
        return x

    @tooled
    def gen3():
        a = 1
        yield a
        b = 2
        yield b

    @tooled
    def first():
        it = gen3()
        head = next(it)
        return head  # `it` is still suspended when first() returns

    ov = Overlay()
    t = ov.tap(ptera.select("first > plain > x", env={"first": first, "plain": plain}))
    with ov:
        first()
        plain(100)
    plain(1000)
    print("events for plain() called outside of first():", t)
    return t != []


def generator_shell_is_transparent():
    """C09/C05/C01/C06 (bounded): replay/c09_generator_shell.py -- `yield from proceed.yielding(frame, v)` / `proceed.delegating(frame, it)`
    behave like `yield v` / `yield from it` under every sequence of <= 5 consumer operations {next, send (of a true or a false value), throw (of three kinds of exception), close}, the consumer's
    handlers are current whenever the consumer runs and the activation's own whenever the generator's code runs."""
    import os
    import subprocess

    path = os.path.join(os.path.dirname(os.path.dirname(os.path.abspath(__file__))), "c09_generator_shell.py")
    r = subprocess.run([sys.executable, path, "5"], capture_output=True, text=True, timeout=600)
    print(r.stdout.strip()[-600:], r.stderr.strip()[-300:])
    return r.returncode != 0


def probe_activated_while_a_generator_is_suspended_misses_its_later_events():
    """C05 (what is left of the frame mechanism after the generator repair): a generator re-installs, when it is resumed, the collection
    that was computed when it was first entered; a probe activated while it was suspended is not in it, so the events caused by the
    resumed generator's body (a nested call) do not reach that probe although it is active."""
    def h2(v):
        y = v * 2
        return y

    def g5(n):
        for i in range(n):
            h2(i)
            yield i

    with probing("g5 > i", env={"g5": g5}):
        gen = g5(3)
        next(gen)
        with probing("h2 > y", env={"h2": h2}) as p2:
            ys = p2["y"].accum()
            next(gen)  # calls h2(1) from the generator's body
            h2(10)
    print("events of the probe activated while the generator was suspended:", ys)
    return ys != [2, 20]


def overlay_left_while_a_generator_is_suspended_still_receives_its_events():
    """C05 (same mechanism, other direction): an overlay whose with-block ended while a generator was suspended still receives the events of
    that generator's body when it is resumed (a Probe is silent then -- it has an active period -- an Overlay is not)."""
    from ptera import Overlay

    @tooled
    def h3(v):
        y = v * 2
        return y

    @tooled
    def g6(n):
        for i in range(n):
            h3(i)
            yield i

    with Overlay.tapping(ptera.select("h3 > y", env={"h3": h3})) as ys:
        gen = g6(3)
        next(gen)
    seen_in_block = list(ys)
    next(gen)
    print("events of the overlay:", seen_in_block, "then, after its block ended:", ys[len(seen_in_block):])
    return ys != seen_in_block


def total_probe_with_a_variable_bound_twice_raises_out_of_the_call():
    """C01/C07: a probe without focus (a total probe, not raw) on a variable that the call binds twice: when the call ends the record is
    built with Capture.value, which raises ValueError('Multiple values stored ...') -- out of the user's call, whose result it replaces.
    The property demands the same return value as the untouched function (C01) and a record with all the values (C07)."""
    def f5():
        for i in range(2):
            x = i
        return 0

    got = []
    try:
        with probing("f5(x)", env={"f5": f5}) as p:
            p.subscribe(got.append)
            r = f5()
    except ValueError as e:
        print("the probed call raised:", e)
        return True
    print("returned", r, "records", got)
    return r != 0


def non_ascii_variable_refused():
    """C10: a local whose name is not ASCII is a variable of the function like any other (fix fcac9d4: the lexer of selectors knew
    ASCII letters only and raised SyntaxError)."""
    def f(x):
        é = x + 1
        naïve_π = é * 2
        return naïve_π
    out = []
    try:
        with probing("f(é) > naïve_π") as prb:
            prb.subscribe(out.append)
            r = f(1)
    except BaseException as e:  # noqa
        print("activation / call failed:", type(e).__name__, e)
        return True
    print("events:", out, "result:", r)
    return not (out == [{"é": 2, "naïve_π": 4}] and r == 4)


def total_record_repeats_a_value_once_per_way_of_matching():
    """C07 (recorded): `f(x) > g > h(z)` with g re-entered beneath itself -- the call h(0) below g(1) > g(0) fits the chain in two ways,
    and the total record of f lists its z twice (the kept pair and its child are both registered again by the nested g)."""
    def h(z):
        return z

    def g(n):
        if n > 0:
            g(n - 1)
        return h(n * 100)

    def f(x):
        return g(1)

    out = []
    with probing("f(x) > g > h(z)", raw=True) as prb:
        prb.subscribe(lambda d: out.append({k: list(c.values) for k, c in d.items()}))
        f(1)
    print("records:", out)
    return out != [{"x": [1], "z": [0, 100]}]


def _stream(fn, sel):
    out = []
    with probing(sel, env={sel.split()[0]: fn}) as prb:
        prb.subscribe(lambda d: out.append(next(iter(d.values()))))
        fn()
    return out


def name_bound_twice_by_one_target_reports_the_last_value_twice():
    """C02 (recorded): the reports of for / with / import targets read the variable back after the statement has bound everything, so a
    name that one target binds twice is reported twice with its final value."""
    def f1():
        for x, x in [(1, 2), (3, 4)]:
            pass
    got = _stream(f1, "f1 > x")
    print("events:", got, "binding history: [1, 2, 3, 4]")
    return got != [1, 2, 3, 4]


def binding_by_a_statement_that_then_fails_is_not_reported():
    """C02 (recorded): `for a, (b, c) in [(1, 2)]` binds a = 1 and then fails to unpack 2; no event for a (read-back forms only)."""
    def g4():
        try:
            for a, (b, c) in [(1, 2)]:
                pass
        except TypeError:
            pass
        return a
    got = _stream(g4, "g4 > a")
    print("events:", got, "binding history: [1]")
    return got != [1]


def failing_global_probe_keeps_the_others_from_completing_at_exit():
    """C17 (fix 5f7dd7c): at interpreter exit a global probe whose deactivation raises (min() over no event) must not keep the other
    global probes from publishing their results."""
    from ptera import global_probe
    from ptera import probe as P

    def f(x):
        y = x + 1
        return y
    out = []
    p1 = global_probe("f > y"); p1["y"].count().subscribe(lambda v: out.append(("count1", v)))
    p2 = global_probe("f > x"); p2["x"].filter(lambda v: v > 100).min().subscribe(lambda v: out.append(("min2", v)))
    p3 = global_probe("f > y"); p3["y"].count().subscribe(lambda v: out.append(("count3", v)))
    f(1); f(2)
    try:
        P._terminate_global_probes()
    except Exception as e:  # noqa
        print("raised", type(e).__name__)
    print("published:", out)
    return sorted(out) != [("count1", 2), ("count3", 2)]


# case -> properties (the scenario corpus of DESIGN 2.6: every case is replayed natively by the quick check of its properties)
CASES = {
    "tuple_unpack_generator": ["C01"], "tuple_unpack_dict": ["C01"], "starred_target": ["C01"], "subscript_index_twice": ["C01"],
    "annotation_reevaluated": ["C01"], "for_target_starred": ["C01"], "for_target_attribute": ["C01"], "nonlocal_closure": ["C01"],
    "nested_class_in_function": ["C01"], "nested_def_in_function": ["C01", "C10"], "name_bound_in_except_body": ["C01", "C10"],
    "method_name_bound_to_none_in_module": ["C01"], "defaults_evaluated_again": ["C01"], "tooled_closure_snapshots_cells": ["C01"],
    "attribute_store_focus_on_demand": ["C04", "C02"], "multiline_string_in_method_altered": ["C01"], "rhs_walrus_no_event": ["C02"], "import_dotted_no_event": ["C02"], "with_target_no_event": ["C02"], "list_target_no_event": ["C02"],
    "walrus_in_lambda_spurious_event": ["C02"], "generator_running_before_activation": ["C02"], "with_item_fails_after_target_bound": ["C02"],
    "value_on_fallthrough": ["C06"], "rhs_yield_no_events": ["C06", "C02"], "nested_coroutine_value_after_exit": ["C06"], "finally_overrides_return": ["C06"],
    "except_type_name_refused": ["C10"], "except_body_name_refused": ["C10"], "nested_def_name_refused": ["C10"],
    "declared_only_uninstrumented_returns_marker": ["C16"], "undefined_global_partial_instrumentation_yields_marker": ["C16"],
    "unused_undefined_global_raises": ["C16"], "name_error_info_after_deactivation": ["C16"], "absent_marker_in_override_event": ["C16"],
    "equal_but_distinct_receivers": ["C13"], "unhashable_receiver": ["C13"], "two_bound_methods_on_one_path": ["C13", "C03"],
    "tag_hidden_by_later_annotation": ["C11"],
    "completion_error_leaves_probe_active": ["C17", "C05"], "overlay_on_tooled_function_keeps_its_events": ["C05"], "deactivation_inside_a_call_is_undone_at_its_exit": ["C05"],
    "probe_activated_inside_a_call_is_dropped": ["C05"],
    "same_name_constrained_in_two_frames": ["C12"], "bound_method_subselector_drops_record": ["C07"],
    "private_names_in_method": ["C01"], "total_probe_with_a_variable_bound_twice_raises_out_of_the_call": ["C01", "C07"], "probe_activated_while_a_generator_is_suspended_misses_its_later_events": ["C05"],
    "overlay_left_while_a_generator_is_suspended_still_receives_its_events": ["C05"], "generator_shell_is_transparent": ["C09", "C05", "C01", "C06", "C02", "C07", "C03", "C17"], "probe_silenced_when_an_earlier_generator_finishes": ["C02", "C06"],
    "suspended_generator_in_a_local_outlives_its_frame": ["C09"], "slice_bounds_evaluated_once": ["C01", "C02"], "match_statement_under_tooling": ["C01", "C10", "C02"], "provenance_follows_python_scoping": ["C10"], "augmented_attribute_store_is_a_binding": ["C04", "C02"],
    "stale_generator_answer_is_not_remembered": ["C05", "C07", "C02", "C09"],
    "hidden_temporaries_keep_generator_alive": ["C09"], "non_ascii_variable_refused": ["C10"], "failing_global_probe_keeps_the_others_from_completing_at_exit": ["C17"], "name_bound_twice_by_one_target_reports_the_last_value_twice": ["C02"], "binding_by_a_statement_that_then_fails_is_not_reported": ["C02"], "total_record_repeats_a_value_once_per_way_of_matching": ["C07"], "same_name_at_two_placements": ["C14"],
}


if __name__ == "__main__":
    case = sys.argv[1]
    bad = globals()[case]()
    print("REPRODUCED" if bad else "not reproduced", case)
    sys.exit(1 if bad else 0)
