"""KNOWN FINDING (C05/C10): a selector refused at activation (SelectorError) leaves the function instrumented."""
import sys
sys.path.insert(0, __import__("os").environ.get("PVC_REPO", "/repo"))
from ptera import probing
from ptera.selector import SelectorError


def f(x):
    a = x + 1
    return a


orig = f.__code__
try:
    with probing("f > nonexistent"):
        pass
    print("not refused?!")
    sys.exit(0)
except SelectorError:
    pass
st = getattr(f, "__ptera_stack__", None)
leak = (st is not None and st.instrument_count != 0) or f.__code__ is not orig
print("instrument_count after refusal:", None if st is None else st.instrument_count, "original code restored:", f.__code__ is orig)
sys.exit(1 if leak else 0)
