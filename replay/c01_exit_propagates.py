"""Native replay for proceed.exit-propagates: an exception raised by an instrumented body must reach the caller under every
kind of rule (immediate, total, total with a close callback that returns a value), for functions and generators."""
import sys

sys.path.insert(0, __import__("os").environ.get("PVC_REPO", "/repo"))
from ptera import probing, tooled  # noqa: E402
from ptera.overlay import Overlay  # noqa: E402


def div(a, q):
    r = a / q
    return r


def gen(q):
    x = 1
    yield x
    y = x / q
    yield y


@tooled
def look(d, k):
    v = d[k]
    return v


def outcome(th):
    try:
        return ("ok", th())
    except BaseException as e:  # noqa
        return (type(e).__name__,)


bad = []
want = outcome(lambda: div(1, 0))
for sel, kw in [("div > r", {}), ("div(a, q)", {}), ("div > q", {"probe_type": "total"}), ("div(a) > q", {"raw": True})]:
    with probing(sel, **kw) as prb:
        prb.subscribe(lambda d: None)
        got = outcome(lambda: div(1, 0))
    if got != want:
        bad.append((sel, kw, want, got))
wantg = outcome(lambda: list(gen(0)))
for sel, kw in [("gen > x", {}), ("gen(q)", {"raw": True})]:
    with probing(sel, **kw) as prb:
        prb.subscribe(lambda d: None)
        got = outcome(lambda: list(gen(0)))
    if got != wantg:
        bad.append((sel, kw, wantg, got))
ov = Overlay()
ov.on("look(k)", immediate=False)(lambda args: 7)
ov.register("look(d)", lambda args: [1], immediate=False)
with ov:
    got = outcome(lambda: look({}, "zz"))
if got != ("KeyError",):
    bad.append(("look(k) total overlay", {}, ("KeyError",), got))
for b in bad:
    print("exception swallowed or changed:", b)
sys.exit(1 if bad else 0)
