#!/usr/bin/env python3
"""Maintenance script (not a check): systematic first-order mutation of /repo/ptera to measure which small changes the
registered checks notice.  For every function of ptera/*.py a set of source-level mutants is generated (comparison / boolean
operator flips, negated conditions, 0/1 and True/False swaps, deleted statements, `return None`, +/- swaps).  Each mutant is
applied to a scratch copy (never to /repo): first the repository's own test suite runs; a mutant that SURVIVES the suite is
handed to the quick checks of the properties whose contract units execute the mutated function (PVC_REPO=<scratch copy>).
A mutant surviving both is either equivalent, outside every property, or a hole in a contract: the list is written to
mutation/survivors.json for triage.

usage: tools_mutate.py gen                       -> mutation/mutants.json
       tools_mutate.py tests [jobs]              -> which mutants the suite kills
       tools_mutate.py checks [jobs] [filter]    -> which surviving mutants the checks kill
       tools_mutate.py report
"""
import ast
import concurrent.futures as cf
import glob
import json
import os
import re
import shutil
import subprocess
import sys
import tempfile

ROOT = os.path.dirname(os.path.abspath(__file__))
OUT = os.path.join(ROOT, "mutation")
BASE = "/tmp/pvc_mutation_base"  # snapshot of the committed tree the mutants were generated from (re-created by `gen`)
REPO = BASE
CMP = {"==": "!=", "!=": "==", "<": "<=", "<=": "<", ">": ">=", ">=": ">", "is": "is not", "is not": "is", "in": "not in", "not in": "in"}


def offsets(src):
    starts = [0]
    for line in src.splitlines(keepends=True):
        starts.append(starts[-1] + len(line))
    return starts


def generate():
    shutil.rmtree(BASE, ignore_errors=True)
    os.makedirs(BASE)
    subprocess.run(f"git -C /repo archive HEAD ptera tests | tar -x -C {BASE}", shell=True, check=True)
    mutants = []
    for path in sorted(glob.glob(os.path.join(REPO, "ptera", "*.py"))):
        src = open(path).read()
        tree = ast.parse(src)
        st = offsets(src)
        # columns are utf8 byte offsets; ptera sources are ascii
        pos = lambda ln, col: st[ln - 1] + col
        mod = "ptera." + os.path.basename(path)[:-3]

        def seg(n):
            return pos(n.lineno, n.col_offset), pos(n.end_lineno, n.end_col_offset)

        def add(qual, kind, a, b, new, line):
            if src[a:b] == new:
                return
            mutants.append({"file": os.path.relpath(path, REPO), "module": mod, "function": qual, "kind": kind, "start": a, "end": b, "new": new,
                            "line": line, "old": src[a:b][:80]})

        def visit_fn(fn, qual):
            doc = ast.get_docstring(fn, clean=False)
            for node in ast.walk(fn):
                if node is not fn and isinstance(node, (ast.FunctionDef, ast.AsyncFunctionDef, ast.ClassDef)):
                    continue
                ln = getattr(node, "lineno", None)
                if isinstance(node, ast.Compare) and len(node.ops) == 1:
                    a = pos(node.left.end_lineno, node.left.end_col_offset)
                    b = pos(node.comparators[0].lineno, node.comparators[0].col_offset)
                    mid = src[a:b]
                    m = re.fullmatch(r"(\s*\)*\s*)(==|!=|<=|>=|<|>|is\s+not|not\s+in|is|in)(\s*\(*\s*)", mid)
                    if m:
                        op = re.sub(r"\s+", " ", m.group(2))
                        add(qual, "cmp", a, b, m.group(1) + CMP[op] + m.group(3), ln)
                elif isinstance(node, ast.BoolOp):
                    a = pos(node.values[0].end_lineno, node.values[0].end_col_offset)
                    b = pos(node.values[1].lineno, node.values[1].col_offset)
                    mid = src[a:b]
                    m = re.fullmatch(r"([\s)]*)(and|or)([\s(]*)", mid)
                    if m:
                        add(qual, "bool", a, b, m.group(1) + ("or" if m.group(2) == "and" else "and") + m.group(3), ln)
                elif isinstance(node, ast.UnaryOp) and isinstance(node.op, ast.Not):
                    a, b = seg(node)
                    oa, ob = seg(node.operand)
                    add(qual, "not-removed", a, b, src[oa:ob], ln)
                elif isinstance(node, ast.Constant) and type(node.value) in (int, bool) and node.value in (0, 1, True, False):
                    a, b = seg(node)
                    new = {"0": "1", "1": "0", "True": "False", "False": "True"}.get(src[a:b])
                    if new:
                        add(qual, "const", a, b, new, ln)
                elif isinstance(node, (ast.If, ast.While)) or isinstance(node, ast.IfExp):
                    a, b = seg(node.test)
                    add(qual, "negate-test", a, b, "not (" + src[a:b] + ")", ln)
                elif isinstance(node, ast.Return) and node.value is not None and not (isinstance(node.value, ast.Constant) and node.value.value is None):
                    a, b = seg(node.value)
                    add(qual, "return-none", a, b, "None", ln)
                elif isinstance(node, ast.BinOp) and isinstance(node.op, (ast.Add, ast.Sub)):
                    a = pos(node.left.end_lineno, node.left.end_col_offset)
                    b = pos(node.right.lineno, node.right.col_offset)
                    m = re.fullmatch(r"([\s)]*)([+-])([\s(]*)", src[a:b])
                    if m:
                        add(qual, "arith", a, b, m.group(1) + ("-" if m.group(2) == "+" else "+") + m.group(3), ln)
                elif isinstance(node, ast.AugAssign) and isinstance(node.op, (ast.Add, ast.Sub)):
                    a = pos(node.target.end_lineno, node.target.end_col_offset)
                    b = pos(node.value.lineno, node.value.col_offset)
                    m = re.fullmatch(r"(\s*)([+-])=(\s*)", src[a:b])
                    if m:
                        add(qual, "aug", a, b, m.group(1) + ("-" if m.group(2) == "+" else "+") + "=" + m.group(3), ln)
                if isinstance(node, (ast.Expr, ast.Assign, ast.AugAssign)) and not (isinstance(node, ast.Expr) and isinstance(node.value, ast.Constant)):
                    if isinstance(node, ast.Expr) and isinstance(node.value, (ast.Yield, ast.YieldFrom)):
                        continue
                    a, b = seg(node)
                    add(qual, "stmt-deleted", a, b, "pass", ln)

        def walk(n, pre):
            for ch in ast.iter_child_nodes(n):
                if isinstance(ch, (ast.FunctionDef, ast.AsyncFunctionDef)):
                    visit_fn(ch, pre + ch.name)
                    walk(ch, pre + ch.name + ".")
                elif isinstance(ch, ast.ClassDef):
                    walk(ch, pre + ch.name + ".")
                else:
                    walk(ch, pre)

        walk(tree, "")
    for i, m in enumerate(mutants):
        m["id"] = i
    os.makedirs(OUT, exist_ok=True)
    json.dump(mutants, open(os.path.join(OUT, "mutants.json"), "w"), indent=0)
    print(len(mutants), "mutants")


def make_copy(m, with_tests):
    tmp = tempfile.mkdtemp(prefix="pvc_mut_")
    shutil.copytree(os.path.join(BASE, "ptera"), os.path.join(tmp, "ptera"))
    if with_tests:
        shutil.copytree(os.path.join(BASE, "tests"), os.path.join(tmp, "tests"))
        for f in ("pyproject.toml", "setup.cfg", "conftest.py", "README.md"):
            if os.path.exists(os.path.join(REPO, f)):
                shutil.copy(os.path.join(REPO, f), tmp)
    p = os.path.join(tmp, m["file"])
    src = open(p).read()
    open(p, "w").write(src[:m["start"]] + m["new"] + src[m["end"]:])
    return tmp


def run_tests(m):
    tmp = make_copy(m, True)
    try:
        try:
            compile(open(os.path.join(tmp, m["file"])).read(), m["file"], "exec")
        except SyntaxError:
            return m["id"], "invalid"
        try:
            r = subprocess.run(["/venv/bin/python", "-m", "pytest", "-q", "-x", "-p", "no:cacheprovider", "tests"], cwd=tmp, capture_output=True, text=True, timeout=180)
        except subprocess.TimeoutExpired:
            return m["id"], "killed-by-tests(timeout)"
        return m["id"], "survived-tests" if r.returncode == 0 else "killed-by-tests"
    finally:
        shutil.rmtree(tmp, ignore_errors=True)


def fn_to_props():
    """function -> properties whose quick check executes it (from the committed evidence) or whose units target it."""
    mp = {}
    for f in glob.glob(os.path.join(ROOT, "evidence", "*.json")):
        d = json.load(open(f))
        prop = d["property_id"]
        cov = d["coverage"]
        for x in cov.get("functions_executed_symbolically", []):
            mp.setdefault(x, set()).add(prop)
        for x in cov.get("functions_under_contract", []) if isinstance(cov.get("functions_under_contract"), list) else []:
            mp.setdefault(x if isinstance(x, str) else x.get("function", ""), set()).add(prop)
    return mp


def run_checks(args):
    m, props = args
    tmp = make_copy(m, False)
    res = {}
    try:
        for prop in props:
            env = {**os.environ, "PVC_REPO": tmp, "PVC_EVIDENCE_DIR": os.path.join(tmp, "evidence"), "PVC_CANARY": "0", "PTERA_VERIF": "1"}
            try:
                r = subprocess.run(["/verif/.venv/bin/python", "-m", "pvc.driver", prop, "quick"], cwd=ROOT, env=env, capture_output=True, text=True, timeout=900)
            except subprocess.TimeoutExpired:
                res[prop] = "timeout"
                continue
            if r.returncode == 1 and "VIOLATION" in r.stdout:
                res[prop] = "VIOLATION " + "; ".join(re.sub(r".*replay=\S*/", "", l) for l in r.stdout.splitlines() if l.startswith("VIOLATION"))[:300]
                break  # killed
            res[prop] = f"exit{r.returncode}" + (" undecided" if re.search(r"undecided=[1-9]", r.stdout) else "")
        return m["id"], res
    finally:
        shutil.rmtree(tmp, ignore_errors=True)


def main():
    cmd = sys.argv[1]
    if cmd == "gen":
        return generate()
    mutants = json.load(open(os.path.join(OUT, "mutants.json")))
    status_p = os.path.join(OUT, "status.json")
    status = json.load(open(status_p)) if os.path.exists(status_p) else {}
    if cmd == "tests":
        jobs = int(sys.argv[2]) if len(sys.argv) > 2 else 8
        todo = [m for m in mutants if str(m["id"]) not in status]
        with cf.ProcessPoolExecutor(jobs) as ex:
            for k, (i, s) in enumerate(ex.map(run_tests, todo, chunksize=4)):
                status[str(i)] = {"tests": s}
                if k % 100 == 0:
                    json.dump(status, open(status_p, "w"))
                    print(k, len(todo), flush=True)
        json.dump(status, open(status_p, "w"))
    elif cmd == "checks":
        jobs = int(sys.argv[2]) if len(sys.argv) > 2 else 3
        flt = sys.argv[3] if len(sys.argv) > 3 else ""
        mp = fn_to_props()
        todo = []
        for m in mutants:
            s = status.get(str(m["id"]), {})
            if s.get("tests") != "survived-tests" or "checks" in s or flt not in (m["module"] + ":" + m["function"]):
                continue
            parts = m["function"].split(".")
            props = set()
            for k in range(len(parts), 0, -1):
                props |= mp.get(m["module"] + ":" + ".".join(parts[:k]), set())
                if props:
                    break
            if not props:
                s["checks"] = {"none": "no property executes this function"}
                continue
            todo.append((m, sorted(props)))
        print(len(todo), "mutants to check", flush=True)
        with cf.ThreadPoolExecutor(jobs) as ex:
            for k, (i, res) in enumerate(ex.map(run_checks, todo)):
                status[str(i)]["checks"] = res
                if k % 10 == 0:
                    json.dump(status, open(status_p, "w"))
                    print(k, len(todo), flush=True)
        json.dump(status, open(status_p, "w"))
    elif cmd == "report":
        tot = len(mutants)
        by = {}
        surv = []
        for m in mutants:
            s = status.get(str(m["id"]), {})
            t = s.get("tests", "not-run")
            if t == "survived-tests":
                ch = s.get("checks")
                if ch is None:
                    t = "survived-tests/checks-not-run"
                elif "none" in ch:
                    t = "survived-tests/no-property-executes-it"
                elif any(v.startswith("VIOLATION") for v in ch.values()):
                    t = "survived-tests/killed-by-checks"
                else:
                    t = "survived-tests/survived-checks"
                    surv.append({**{k: m[k] for k in ("id", "file", "function", "kind", "line", "old", "new")}, "checks": ch})
            by[t] = by.get(t, 0) + 1
        print(tot, by)
        json.dump(surv, open(os.path.join(OUT, "survivors.json"), "w"), indent=1)


if __name__ == "__main__":
    main()
