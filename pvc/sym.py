"""Symbolic value layer: z3 sorts, the universal value datatype, wrappers and conversions."""
import z3

# ---------------------------------------------------------------------------------------
# Universal value sort.  Every Python value that can flow through an opaque position is
# injected into Val.  Constructors of a z3 datatype are distinct and injective, which is
# exactly the identity discipline needed (`None is not ABSENT`, `1 is not "1"`, ...).
#   none / absent         the two sentinels ptera distinguishes by identity
#   int / str / bool      scalars (mathematical integers: exact for Python int)
#   ref(k)                a heap object allocated or declared by the harness (identity k)
#   opq(k)                an opaque user object (unknown class, user-defined __eq__/__bool__)
# ---------------------------------------------------------------------------------------
_V = z3.Datatype("Val")
_V.declare("none")
_V.declare("absent")
_V.declare("int", ("ival", z3.IntSort()))
_V.declare("str", ("sval", z3.StringSort()))
_V.declare("bool", ("bval", z3.BoolSort()))
_V.declare("ref", ("rid", z3.IntSort()))
_V.declare("opq", ("oid", z3.IntSort()))
Val = _V.create()

# ghost history sort (uninterpreted: only congruence is used, see DESIGN 3.4)
Log = z3.DeclareSort("Log")
log_nil = z3.Const("log_nil", Log)
log_snoc = z3.Function("log_snoc", Log, Val, Log)
log_cat = z3.Function("log_cat", Log, Log, Log)
# result of an opaque call is a function of the whole history including the call itself
ret_of = z3.Function("ret_of", Log, Val)
raises_of = z3.Function("raises_of", Log, z3.BoolSort())

# opaque user semantics
eq_u = z3.Function("eq_u", Val, Val, z3.BoolSort())        # Python == when a user object is involved
truthy_u = z3.Function("truthy_u", Val, z3.BoolSort())    # bool(x) for a user object
hashable_u = z3.Function("hashable_u", Val, z3.BoolSort())


class Sym:
    """A symbolic leaf.  kind in {'int','bool','str','val'}; t is a z3 term of the matching sort."""

    __slots__ = ("t", "kind")

    def __init__(self, t, kind):
        self.t = t
        self.kind = kind

    def __repr__(self):
        return f"<{self.kind}:{self.t}>"

    def __hash__(self):
        return id(self)

    def __eq__(self, other):  # native equality must never be used on symbolic values
        return self is other

    def __bool__(self):
        raise TypeError("truth value of a symbolic value taken natively: " + repr(self))


def SInt(t):
    return Sym(t, "int")


def SBool(t):
    return Sym(t, "bool")


def SStr(t):
    return Sym(t, "str")


def SVal(t):
    return Sym(t, "val")


def is_sym(v):
    return isinstance(v, Sym)


def simp(t):
    return z3.simplify(t)


def concretize(v):
    """Turn a Sym whose term simplifies to a literal into the native value."""
    if not isinstance(v, Sym):
        return v
    t = z3.simplify(v.t)
    if v.kind == "int" and z3.is_int_value(t):
        return t.as_long()
    if v.kind == "bool":
        if z3.is_true(t):
            return True
        if z3.is_false(t):
            return False
    if v.kind == "str" and z3.is_string_value(t):
        return t.as_string()
    if v.kind == "val":
        if z3.is_app(t):
            d = t.decl()
            if d.eq(Val.none):
                return None
            if d.eq(Val.int) and z3.is_int_value(t.arg(0)):
                return t.arg(0).as_long()
            if d.eq(Val.bool) and z3.is_true(t.arg(0)):
                return True
            if d.eq(Val.bool) and z3.is_false(t.arg(0)):
                return False
            if d.eq(Val.str) and z3.is_string_value(t.arg(0)):
                return t.arg(0).as_string()
            if d.eq(Val.int):
                return Sym(t.arg(0), "int")
            if d.eq(Val.str):
                return Sym(t.arg(0), "str")
            if d.eq(Val.bool):
                return Sym(t.arg(0), "bool")
    return Sym(t, v.kind)


def z3_and(*xs):
    xs = [x for x in xs if not (x is True)]
    if any(x is False for x in xs):
        return z3.BoolVal(False)
    if not xs:
        return z3.BoolVal(True)
    return z3.And(*[x if not isinstance(x, bool) else z3.BoolVal(x) for x in xs])


def z3_or(*xs):
    xs = [x for x in xs if not (x is False)]
    if any(x is True for x in xs):
        return z3.BoolVal(True)
    if not xs:
        return z3.BoolVal(False)
    return z3.Or(*[x if not isinstance(x, bool) else z3.BoolVal(x) for x in xs])


def z3_not(x):
    if isinstance(x, bool):
        return not x
    return z3.Not(x)


def z3_bool(x):
    if isinstance(x, bool):
        return z3.BoolVal(x)
    if isinstance(x, Sym):
        assert x.kind == "bool", x
        return x.t
    return x


def floor_mod(a, b):
    """Python % on integers (floor modulo) in terms of SMT-LIB mod (always non-negative)."""
    m = a % b  # z3: SMT-LIB mod
    return z3.If(b > 0, m, z3.If(m == 0, z3.IntVal(0), m + b))


def floor_div(a, b):
    """Python // on integers in terms of SMT-LIB div."""
    # a == b * (a div b) + (a mod b), 0 <= mod < |b|.  Python: a == b*q + r with r having sign of b.
    d = a / b  # z3 ArithRef '/' on ints is SMT-LIB div
    m = a % b
    return z3.If(b > 0, d, z3.If(m == 0, d, d + 1))
