"""Path exploration, path conditions, obligations and their discharge."""
import time
import z3

from .sym import Sym, Val, Log, log_nil, log_snoc, ret_of, raises_of, z3_bool, SVal, SInt, SBool, SStr


class PathEnd(Exception):
    """The current path ends here (infeasible, or the arbitrary-iteration branch of a loop rule)."""


class Unsupported(Exception):
    """The engine cannot model this construct: the unit is UNDECIDED, never a violation."""


class PyRaise(Exception):
    """A Python exception raised by interpreted code.  value: Obj (interpreted class) or native instance."""

    def __init__(self, value, cause_site=None):
        self.value = value
        self.cause_site = cause_site


class Obligation:
    __slots__ = ("name", "status", "ms", "solver", "model", "goal", "path", "note", "smt2", "kind", "decisions")

    def __init__(self, name, status, ms, solver, model=None, goal="", path=None, note="", smt2=None, kind="property"):
        self.name = name
        self.status = status  # discharged | failed | undecided
        self.ms = ms
        self.solver = solver
        self.model = model
        self.goal = goal
        self.path = path
        self.note = note
        self.smt2 = smt2
        self.kind = kind
        self.decisions = None

    def as_dict(self):
        return {
            "name": self.name,
            "status": self.status,
            "ms": round(self.ms, 2),
            "solver": self.solver,
            "goal": self.goal[:400],
            "path": self.path,
            "note": self.note,
            "model": self.model,
            "kind": self.kind,
            "decisions": self.decisions,
        }


SOLVER_TIMEOUT_MS = 10000
FEAS_TIMEOUT_MS = 3000


class Ctx:
    """Execution context of ONE path.  Paths are explored by re-execution with a decision prefix."""

    def __init__(self, prefix, world, unit_name, keep_smt=False):
        self.prefix = list(prefix)
        self.pos = 0
        self.taken = []
        self.pending = []  # alternative prefixes discovered on this path
        self.world = world
        self.unit = unit_name
        self.solver = z3.Solver()
        self.solver.set("timeout", FEAS_TIMEOUT_MS)
        self.pc = []
        self.known = {}
        self.log = log_nil
        self.fresh_n = 0
        self.obj_n = 1000
        self.results = []
        self.inputs = {}  # name -> Sym, for model extraction
        self.solver_time = 0.0
        self.keep_smt = keep_smt
        self.covered = set()  # labels reached (vacuity guard)
        self.executed = set()  # qualified names of the real functions whose bodies were executed on this path
        self.mod_state = {}  # per-path module globals
        self.notes = []

    # -- symbols ------------------------------------------------------------------------
    def fresh_name(self, base):
        self.fresh_n += 1
        return f"{base}!{self.fresh_n}"

    def int(self, name, inp=True):
        s = SInt(z3.Int(name))
        if inp:
            self.inputs[name] = s
        return s

    def bool(self, name, inp=True):
        s = SBool(z3.Bool(name))
        if inp:
            self.inputs[name] = s
        return s

    def str(self, name, inp=True):
        s = SStr(z3.String(name))
        if inp:
            self.inputs[name] = s
        return s

    def val(self, name, inp=True):
        s = SVal(z3.Const(name, Val))
        if inp:
            self.inputs[name] = s
        return s

    def new_id(self):
        self.obj_n += 1
        return self.obj_n

    # -- path condition -----------------------------------------------------------------
    def assume(self, t):
        t = z3_bool(t)
        if z3.is_true(t):
            return
        self.pc.append(t)
        self.solver.add(t)
        if z3.is_not(t):
            self.known[t.arg(0).get_id()] = False
        else:
            self.known[t.get_id()] = True

    def require(self, t):
        """Precondition: assume it; a path on which it cannot hold is outside the contract and ends here."""
        self.assume(t)
        if self._check() == z3.unsat:
            self.ended_by_require = True  # obligations stated before this point were proved under a satisfiable prefix
            raise PathEnd()

    def _check(self, *assumptions):
        t0 = time.time()
        r = self.solver.check(*assumptions)
        self.solver_time += time.time() - t0
        return r

    def feasible(self, t):
        r = self._check(t)
        return r != z3.unsat

    def decide(self, cond):
        """Branch on a (possibly symbolic) boolean.  Returns a Python bool."""
        if isinstance(cond, bool):
            return cond
        if isinstance(cond, Sym):
            assert cond.kind == "bool", cond
            t = cond.t
        else:
            t = cond
        t = z3.simplify(t)
        if z3.is_true(t):
            return True
        if z3.is_false(t):
            return False
        kn = self.known.get(t.get_id())
        if kn is None and z3.is_not(t):
            kn = self.known.get(t.arg(0).get_id())
            kn = None if kn is None else (not kn)
        if kn is not None:
            return kn
        if self.pos < len(self.prefix):
            choice = self.prefix[self.pos]
        else:
            can_t = self.feasible(t)
            can_f = self.feasible(z3.Not(t))
            if can_t and can_f:
                self.pending.append(self.taken + [False])
                choice = True
            elif can_t:
                choice = True
            elif can_f:
                choice = False
            else:
                raise PathEnd()
        self.pos += 1
        self.taken.append(choice)
        self.assume(t if choice else z3.Not(t))
        return choice

    def choose(self, n, label=""):
        """Non-deterministic meta choice among n alternatives (no solver involved)."""
        if self.pos < len(self.prefix):
            choice = self.prefix[self.pos]
        else:
            for k in range(1, n):
                self.pending.append(self.taken + [k])
            choice = 0
        self.pos += 1
        self.taken.append(choice)
        return choice

    # -- obligations --------------------------------------------------------------------
    def cover(self, label):
        self.covered.add(label)

    def prove(self, name, goal, kind="property", note="", only=None):
        """Obligation: path condition implies goal.  `only`: properties this clause belongs to."""
        if only is not None and self.unit.split("/")[0] not in only:
            return True
        if isinstance(goal, bool):
            goal_t = z3.BoolVal(goal)
        else:
            goal_t = z3_bool(goal)
        full = f"{self.unit}/{name}"
        t0 = time.time()
        s = z3.Solver()
        s.set("timeout", SOLVER_TIMEOUT_MS)
        for a in self.pc:
            s.add(a)
        s.add(z3.Not(goal_t))
        smt2 = s.to_smt2() if self.keep_smt else None
        r = s.check()
        ms = (time.time() - t0) * 1000
        self.solver_time += ms / 1000
        pathid = "".join(str(int(x)) for x in self.taken)
        goal_s = goal_t.sexpr()[:600] if r == z3.unsat else str(z3.simplify(goal_t))[:3000]
        if r == z3.unsat:
            ob = Obligation(full, "discharged", ms, "z3", goal=goal_s, path=pathid, note=note, smt2=smt2, kind=kind)
        elif r == z3.sat:
            m = s.model()
            model = {}
            for k, v in self.inputs.items():
                try:
                    model[k] = str(m.eval(v.t, model_completion=True))
                except Exception:  # pragma: no cover
                    model[k] = "?"
            ob = Obligation(full, "failed", ms, "z3", model=model, goal=goal_s, path=pathid, note=note, smt2=smt2, kind=kind)
        else:
            ob = Obligation(full, "undecided", ms, "z3", goal=goal_s, path=pathid, note=note + " reason=" + s.reason_unknown(), smt2=smt2, kind=kind)
        ob.decisions = [int(x) for x in self.taken]
        self.results.append(ob)
        return ob.status == "discharged"

    def refute(self, name, goal, note=""):
        """Negated twin (vacuity guard): this clause must NOT be provable.  Discharged iff the solver finds a model of
        the path condition in which the goal fails."""
        goal_t = z3.BoolVal(goal) if isinstance(goal, bool) else z3_bool(goal)
        t0 = time.time()
        s = z3.Solver()
        s.set("timeout", SOLVER_TIMEOUT_MS)
        for a in self.pc:
            s.add(a)
        s.add(z3.Not(goal_t))
        r = s.check()
        ms = (time.time() - t0) * 1000
        self.solver_time += ms / 1000
        status = "discharged" if r == z3.sat else ("failed" if r == z3.unsat else "undecided")
        ob = Obligation(f"{self.unit}/{name}", status, ms, "z3", goal="twin must not be provable: " + goal_t.sexpr()[:300],
                        path="".join(str(int(x)) for x in self.taken), note=note + (" reason=" + s.reason_unknown() if r == z3.unknown else ""),
                        kind="twin")
        ob.decisions = [int(x) for x in self.taken]
        self.results.append(ob)
        return status == "discharged"

    # -- ghost history ------------------------------------------------------------------
    def emit(self, ev):
        """Append an event (a Val term) to the ghost history."""
        self.log = log_snoc(self.log, ev)

    def opaque_call(self, ev, may_raise=False, kind="val"):
        """An unknown deterministic callee: logs the call; result is a function of the history."""
        self.emit(ev)
        if may_raise:
            if self.decide(raises_of(self.log)):
                return ("raise", None)
        r = ret_of(self.log)
        return ("ok", SVal(r))


def explore(harness, world, unit_name, max_paths=4000, keep_smt=False, wall_budget=None):
    """Run harness(ctx) on every feasible path.  Returns (obligations, stats)."""
    work = [[]]
    results = []
    npaths = 0
    covered = set()
    executed = set()
    solver_time = 0.0
    notes = []
    t0 = time.time()
    while work:
        prefix = work.pop()
        npaths += 1
        if npaths > max_paths or (wall_budget and time.time() - t0 > wall_budget):
            why = "path budget" if npaths > max_paths else "wall budget"
            return results, {"paths": npaths, "covered": sorted(covered), "solver_time_s": solver_time, "notes": notes, "executed": sorted(executed),
                             "incomplete": f"{why} exceeded after {npaths} paths in {unit_name}"}
        ctx = Ctx(prefix, world, unit_name, keep_smt=keep_smt)
        try:
            harness(ctx)
        except PathEnd:
            pass
        except PyRaise as e:
            # the code under contract raised where the harness (the caller in the contract) expects it to return: a failed
            # obligation of the unit, not a fault of the checker
            ctx.prove("does-not-raise-where-the-contract-calls-it", False, note=f"raised {e.value!r}"[:300])
        # vacuity guard: the path condition under which this path's obligations were discharged must be satisfiable
        if ctx.results and ctx.pc and not getattr(ctx, "ended_by_require", False):
            r = ctx._check()
            if r == z3.unsat:
                for ob in ctx.results:
                    if ob.status == "discharged":
                        ob.status = "undecided"
                        ob.note = (ob.note or "") + " vacuous: contradictory path condition"
        results.extend(ctx.results)
        covered |= ctx.covered
        executed |= ctx.executed
        solver_time += ctx.solver_time
        notes.extend(ctx.notes)
        work.extend(ctx.pending)
    return results, {"paths": npaths, "covered": sorted(covered), "solver_time_s": solver_time, "notes": notes, "executed": sorted(executed)}
