"""Library models: builtins, native objects, imports.  Every entry here is an ASSUMED contract on a
dependency (DESIGN 3.2); the list `ASSUMED` is copied into the evidence files."""
import ast
import builtins as _b
import collections
import functools
import itertools
import math
import re
import types

import z3

from .core import PathEnd, Unsupported, PyRaise
from .sym import Sym, Val, SInt, SBool, SStr, SVal, concretize, z3_bool, hashable_u
from .values import Obj, ClassV, FuncV, BoundV, SummaryFn, SymObj, SymSeq, ListTerm, Env, UNDEF

ASSUMED = [
    "builtins len/isinstance/getattr/hasattr/any/all/sum/sorted/tuple/list/dict/set/frozenset/enumerate/zip/range/reversed/max/min/str/repr behave as in CPython on concrete arguments (executed natively)",
    "generator expressions are evaluated eagerly (no observable laziness in the verified functions)",
    "a generator FUNCTION whose values are only iterated over (no send / throw, nothing observable interleaved with its consumer) is run to its end and stands for the list of what it yields; a function whose yields receive values (x = yield v) is not supported and leaves its unit undecided",
    "ast node constructors only store their fields; ast.copy_location / fix_missing_locations only touch position attributes",
    "dict preserves insertion order; set iteration order is unspecified (engine iterates sets in a fixed order and contracts must not depend on it)",
    "integers are mathematical integers (exact for Python int)",
    "user callbacks are deterministic functions of the history of calls made so far, do not mutate the snapshots they receive and do not re-enter ptera",
]


class ModuleRef:
    def __init__(self, name):
        self.name = name

    def __repr__(self):
        return f"<module {self.name}>"


class SuperV:
    def __init__(self, self_v, cls):
        self.self_v = self_v
        self.cls = cls


_NATIVE_MODULES = {
    "ast": ast, "re": re, "math": math, "types": types, "functools": functools, "itertools": itertools,
    "collections": collections, "dis": __import__("dis"),
}


def import_module(it, name):
    if name in it.world.modules:
        return ModuleRef(name)
    if name in _NATIVE_MODULES:
        return _NATIVE_MODULES[name]
    hook = getattr(it, "import_hook", None)
    if hook:
        v = hook(name, None)
        if v is not None:
            return v
    if name == "copy":
        m = types.ModuleType("copy")
        m.copy = import_from(it, "copy", "copy")
        m.deepcopy = import_from(it, "copy", "deepcopy")
        return m
    raise Unsupported(f"import {name}")


def import_from(it, module, name):
    if module in it.world.modules:
        return it.get_global(module, name)
    hook = getattr(it, "import_hook", None)
    if hook:
        v = hook(module, name)
        if v is not None:
            return v
    if module in _NATIVE_MODULES:
        return getattr(_NATIVE_MODULES[module], name)
    if module == "copy" and name == "deepcopy":
        import copy

        return copy.deepcopy
    if module == "copy" and name == "copy":
        def _shallow(it_, a, k):
            o = a[0]
            if isinstance(o, Obj):
                n = Obj(o.cls, it_.ctx.new_id())
                n.fields = dict(o.fields)  # shallow: the field VALUES (lists included) are shared with the original
                return n
            if isinstance(o, (list, dict, set)):
                return o.copy()
            if isinstance(o, (tuple, frozenset, str, int, float, bool, type(None))):
                return o
            raise Unsupported(f"copy.copy of {type(o).__name__}")

        return SummaryFn("copy.copy", _shallow)
    if module == "textwrap":
        import textwrap

        return getattr(textwrap, name)
    if module == "contextlib" and name == "contextmanager":
        return SummaryFn("contextmanager", lambda it_, a, k: a[0])
    if module == "contextvars" and name == "ContextVar":
        return SummaryFn("ContextVar", lambda it_, a, k: make_contextvar(it_, a, k))
    # exception classes of installed libraries are plain data for the engine (raised / caught by identity of the class)
    try:
        import importlib

        obj = getattr(importlib.import_module(module), name)
        if isinstance(obj, type) and issubclass(obj, BaseException):
            return obj
    except Exception:  # noqa
        pass
    raise Unsupported(f"from {module} import {name}")


# ---------------------------------------------------------------------------------------
# ContextVar model (assumed contract): get() returns the current value or the default;
# set(v) returns a token remembering the previous value; reset(token) restores it.
# ---------------------------------------------------------------------------------------
class ContextVarModel:
    def __init__(self, name, default):
        self.name = name
        self.value = default
        self.default = default
        self.history = []


class TokenModel:
    def __init__(self, var, old):
        self.var = var
        self.old = old
        self.used = False


def make_contextvar(it, args, kwargs):
    return ContextVarModel(args[0], kwargs.get("default"))


def native_namespace(it):
    return {}


def absent(it):
    return it.get_global("ptera.utils", "ABSENT")


def native_id(it, v):
    ids = it.ctx.__dict__.setdefault("_native_ids", {})
    keep = it.ctx.__dict__.setdefault("_native_keep", [])
    k = id(v)
    if k not in ids:
        ids[k] = it.ctx.new_id()
        keep.append(v)
    return ids[k]


def code_of(it, f):
    c = f.attrs.get("__code__")
    if c is None:
        c = SymObj(f"code_of_{f.name}", Val.ref(z3.IntVal(it.ctx.new_id())))
        f.attrs["__code__"] = c
    return c


# ---------------------------------------------------------------------------------------
# builtins
# ---------------------------------------------------------------------------------------
def _isinstance(it, v, c):
    if isinstance(c, tuple):
        ts = [_isinstance(it, v, x) for x in c]
        if any(t is True for t in ts):
            return True
        ts = [t for t in ts if t is not False]
        if not ts:
            return False
        return concretize(SBool(z3.Or(*[z3_bool(t) for t in ts])))
    v = concretize(v)
    if isinstance(c, SummaryFn) and hasattr(_b, c.name) and isinstance(getattr(_b, c.name), type):
        c = getattr(_b, c.name)
    if isinstance(v, Obj):
        if isinstance(c, ClassV):
            return c in v.cls.mro
        return c in v.cls.mro or c is object
    if isinstance(v, SymObj):
        f = v.attrs.get("__isinstance__")
        if f is not None:
            return f(it, v, c)
        if v.cls is not None:
            return c in v.cls.mro or c is object
        return c is object
    if isinstance(v, Sym):
        if isinstance(c, ClassV):
            if v.kind != "val":
                return False
            f = getattr(it, "val_isinstance", None)
            if f is not None:
                return f(v, c)
            return False  # opaque user values are not instances of ptera classes unless declared
        if v.kind == "int":
            return c in (int, object)
        if v.kind == "bool":
            return c in (bool, int, object)
        if v.kind == "str":
            return c in (str, object)
        t = v.t
        if c is int:
            return concretize(SBool(z3.Or(Val.is_int(t), Val.is_bool(t))))
        if c is bool:
            return concretize(SBool(Val.is_bool(t)))
        if c is str:
            return concretize(SBool(Val.is_str(t)))
        if c is object:
            return True
        if c is type(None):
            return concretize(SBool(Val.is_none(t)))
        return False
    if isinstance(v, FuncV):
        return c in (types.FunctionType, object) or (c is collections.abc.Callable)
    if isinstance(v, BoundV):
        return c in (types.MethodType, object)
    if isinstance(v, ClassV):
        return c in (type, object)
    if isinstance(c, ClassV):
        return False
    if isinstance(v, SymSeq):
        return c in (list, object)
    return isinstance(v, c)


def _len(it, v):
    if isinstance(v, SymSeq):
        if v.guard is not None:
            raise Unsupported("len of guarded symbolic sequence")
        return SInt(v.n)
    if isinstance(v, Sym):
        if v.kind == "str":
            return SInt(z3.Length(v.t))
        raise Unsupported("len of symbolic value")
    if isinstance(v, Obj):
        own, m = v.cls.lookup("__len__")
        if isinstance(m, FuncV):
            return it.call_function(m, [v], {})
        raise PyRaise(TypeError(f"object of type '{v.cls.name}' has no len()"))
    if v is None:
        raise PyRaise(TypeError("object of type 'NoneType' has no len()"))
    return len(v)


def _getattr(it, o, name, *default):
    try:
        return it.getattr(o, name)
    except PyRaise as e:
        if isinstance(e.value, AttributeError) and default:
            return default[0]
        raise


def _any(it, xs):
    for x in it.iterate(xs):
        if it.truth(x):
            return True
    return False


def _all(it, xs):
    for x in it.iterate(xs):
        if not it.truth(x):
            return False
    return True


def _sum(it, xs, start=0):
    acc = start
    for x in it.iterate(xs):
        acc = it.binop(ast.Add(), acc, x)
    return acc


def _type(it, v):
    if isinstance(v, Obj):
        return v.cls
    if isinstance(v, SymObj):
        if v.cls is not None:
            return v.cls
        raise Unsupported("type() of symbolic object")
    if isinstance(v, Sym):
        if v.kind == "int":
            return int
        if v.kind == "str":
            return str
        if v.kind == "bool":
            return bool
        raise Unsupported("type() of untyped symbolic value")
    if isinstance(v, FuncV):
        return types.FunctionType
    return type(v)


def _sorted(it, xs, key=None, reverse=False):
    items = it.iterate(xs)
    if key is not None:
        keys = [it.call(key, [x], {}) for x in items]
    else:
        keys = items
    if key is None and all(isinstance(k, tuple) and k and isinstance(k[0], str) for k in keys) and len({k[0] for k in keys}) == len(keys):
        # tuples with distinct leading strings: the order is decided by the first component alone
        keys = [k[0] for k in keys]
    if any(_has_sym(k) for k in keys):
        raise Unsupported("sorted() with symbolic keys")
    try:
        idx = sorted(range(len(items)), key=lambda i: keys[i], reverse=reverse)
    except TypeError as e:
        raise PyRaise(TypeError(str(e)))
    return [items[i] for i in idx]


def _has_sym(v, depth=0):
    if isinstance(v, (Sym, SymObj, SymSeq, ListTerm)):
        return True
    if depth < 3 and isinstance(v, (tuple, list, frozenset, set)):
        return any(_has_sym(x, depth + 1) for x in v)
    return False


def _str(it, v=""):
    r = it.format_value(v, -1)
    return r


def _callable(it, v):
    if isinstance(v, (FuncV, BoundV, ClassV, SummaryFn)):
        return True
    if isinstance(v, Obj):
        own, m = v.cls.lookup("__call__")
        return own is not None
    if isinstance(v, SymObj):
        t = v.attrs.get("__callable__")
        if t is not None:
            return t
        return "__call__" in v.attrs
    if isinstance(v, Sym):
        f = getattr(it, "val_callable", None)
        if f is not None:
            return f(v)
        return False
    return callable(v)


def make_set(it, items, frozen=False):
    out = []
    for x in items:
        if not any(it.decide_eq(y, x) for y in out):
            out.append(x)
    for x in out:
        if isinstance(x, Sym):
            raise Unsupported("set with symbolic members")
    return frozenset(out) if frozen else set(out)


def set_eq(it, a, b):
    if len(a) != len(b):
        return False
    return all(any(it.decide_eq(x, y) for y in b) for x in a)


def set_binop(it, op, a, b, inplace=False):
    if isinstance(op, ast.BitOr):
        r = make_set(it, list(a) + list(b))
    elif isinstance(op, ast.Sub):
        r = [x for x in a if not any(it.decide_eq(x, y) for y in b)]
    elif isinstance(op, ast.BitAnd):
        r = [x for x in a if any(it.decide_eq(x, y) for y in b)]
    else:
        raise Unsupported("set op")
    if inplace and isinstance(a, set):
        a.clear()
        a.update(r)
        return a
    return frozenset(r) if isinstance(a, frozenset) else set(r)


def _hashcheck(it, v):
    """Obligation-free model of hash(): raises TypeError for unhashable values."""
    if isinstance(v, (list, dict, set)):
        raise PyRaise(TypeError(f"unhashable type: '{type(v).__name__}'"))
    if isinstance(v, tuple):
        for x in v:
            _hashcheck(it, x)
    if isinstance(v, Obj):
        own_eq, m_eq = v.cls.lookup("__eq__")
        own_h, m_h = v.cls.lookup("__hash__")
        if isinstance(m_eq, FuncV) and not isinstance(m_h, FuncV):
            # defining __eq__ without __hash__ makes instances unhashable
            if own_h is None or (isinstance(own_eq, ClassV) and (not isinstance(own_h, ClassV) or own_eq.mro.index(own_eq) <= 0) and own_h is not own_eq):
                idx_eq = v.cls.mro.index(own_eq)
                idx_h = v.cls.mro.index(own_h) if own_h in v.cls.mro else len(v.cls.mro)
                if idx_eq < idx_h:
                    raise PyRaise(TypeError(f"unhashable type: '{v.cls.name}'"))
    if isinstance(v, Sym) and v.kind == "val":
        if not it.ctx.decide(z3.Or(z3.Not(Val.is_opq(v.t)), hashable_u(v.t))):
            raise PyRaise(TypeError("unhashable type"))
    if isinstance(v, SymObj):
        h = v.attrs.get("__hashable__")
        if h is not None and not it.ctx.decide(h):
            raise PyRaise(TypeError("unhashable type"))


_BUILTIN_IMPL = {
    "isinstance": _isinstance,
    "len": _len,
    "getattr": _getattr,
    "hasattr": lambda it, o, n: it.hasattr(o, n),
    "setattr": lambda it, o, n, v: it.setattr(o, n, v),
    "any": _any,
    "all": _all,
    "sum": _sum,
    "type": _type,
    "sorted": _sorted,
    "str": _str,
    "repr": lambda it, v: it.format_value(v, 114),
    "callable": _callable,
    "list": lambda it, xs=(): ListTerm(xs.t) if isinstance(xs, ListTerm) else (
        ListTerm(xs.term) if isinstance(xs, SymSeq) and getattr(xs, "term", None) is not None else (
            SymSeq(xs.name, xs.n, xs.elem, xs.guard, xs.kind) if isinstance(xs, SymSeq) else list(it.iterate(xs)))),
    "tuple": lambda it, xs=(): tuple(it.iterate(xs)),
    "set": lambda it, xs=(): make_set(it, it.iterate(xs)),
    "frozenset": lambda it, xs=(): make_set(it, it.iterate(xs), frozen=True),
    "enumerate": lambda it, xs, start=0: list(enumerate(it.iterate(xs), start)),
    "zip": lambda it, *xs: list(zip(*[it.iterate(x) for x in xs])),
    "reversed": lambda it, xs: list(reversed(it.iterate(xs))),
    "map": lambda it, f, xs: [it.call(f, [x], {}) for x in it.iterate(xs)],
    "filter": lambda it, f, xs: [x for x in it.iterate(xs) if it.truth(it.call(f, [x], {}) if f is not None else x)],
    "id": lambda it, v: native_id(it, v) if not isinstance(v, (Obj, FuncV)) else v.oid,
    "bool": lambda it, v=False: (lambda t: t if isinstance(t, bool) else concretize(SBool(t)))(it.truth_term(v)),
    "issubclass": lambda it, a, b: (b in a.mro) if isinstance(a, ClassV) else (False if isinstance(b, ClassV) else issubclass(a, b)),
    "hash": lambda it, v: (_hashcheck(it, v), 0)[1],
    "iter": lambda it, xs: iter(it.iterate(xs)),
    "next": lambda it, i, *d: _next(it, i, *d),
    "print": lambda it, *a, **k: None,
    "delattr": lambda it, o, n: _delattr(it, o, n),
}


def _delattr(it, o, n):
    if isinstance(o, Obj):
        if n in o.fields:
            del o.fields[n]
            return None
        raise PyRaise(AttributeError(n))
    try:
        delattr(o, n)
    except AttributeError as e:
        raise PyRaise(AttributeError(str(e)))


def _next(it, i, *d):
    if isinstance(i, SummaryFn) or isinstance(i, (Obj, SymObj)):
        return it.call(it.getattr(i, "__next__"), [], {})
    if isinstance(i, list):
        # generator expressions are evaluated eagerly (to a list): next() of one takes its first element.  Sound for a generator that
        # is consumed by this single call (the engine has no generator objects); a real list argument raises TypeError like CPython
        if getattr(it, "_last_genexp", None) is not i:
            raise PyRaise(TypeError("'list' object is not an iterator"))
        if i:
            return i[0]
        if d:
            return d[0]
        raise PyRaise(StopIteration())
    try:
        return next(i)
    except StopIteration:
        if d:
            return d[0]
        raise PyRaise(StopIteration())


def _max(it, *xs, default=UNDEF, key=None):
    items = it.iterate(xs[0]) if len(xs) == 1 else list(xs)
    if not items:
        if default is not UNDEF:
            return default
        raise PyRaise(ValueError("max() arg is an empty sequence"))
    if any(_has_sym(x) for x in items):
        raise Unsupported("max of symbolic")
    return max(items)


_BUILTIN_IMPL["max"] = _max


def builtin(it, name):
    if name in _BUILTIN_IMPL:
        f = _BUILTIN_IMPL[name]
        return SummaryFn(name, lambda it_, a, k, f=f: f(it_, *a, **k))
    v = getattr(_b, name)
    return v


# ---------------------------------------------------------------------------------------
# native objects
# ---------------------------------------------------------------------------------------
_COMPARING_LIST_METHODS = {"index", "count", "remove", "__contains__"}


def native_getattr(it, o, name):
    if isinstance(o, ModuleRef):
        return it.get_global(o.name, name)
    if isinstance(o, SuperV):
        own, v = o.cls_lookup(it, name) if hasattr(o, "cls_lookup") else _super_lookup(o, name)
        if own is None:
            raise PyRaise(AttributeError(name))
        if isinstance(v, FuncV):
            return BoundV(o.self_v, v)
        return SummaryFn(f"super.{name}", lambda it_, a, k: native_base_call(it_, o.self_v, own, name, a, k))
    if isinstance(o, ContextVarModel):
        return SummaryFn("ContextVar." + name, lambda it_, a, k: _ctxvar(it_, o, name, a, k))
    if isinstance(o, dict):
        if name == "get":
            return SummaryFn("dict.get", lambda it_, a, k: _dict_get(it_, o, *a))
        if name == "pop":
            return SummaryFn("dict.pop", lambda it_, a, k: _dict_pop(it_, o, *a))
        if name == "setdefault":
            return SummaryFn("dict.setdefault", lambda it_, a, k: _dict_setdefault(it_, o, *a))
        if name == "update":
            return SummaryFn("dict.update", lambda it_, a, k: _dict_update(it_, o, *a, **k))
        if name in ("items", "keys", "values", "copy", "clear"):
            return getattr(o, name)
    if isinstance(o, (list, tuple)) and name in _COMPARING_LIST_METHODS:
        return SummaryFn("list." + name, lambda it_, a, k: _list_cmp_method(it_, o, name, *a))
    if isinstance(o, list) and name == "extend":
        return SummaryFn("list.extend", lambda it_, a, k: o.extend(it_.iterate(a[0])))
    if isinstance(o, (set, frozenset)):
        if name == "update":
            return SummaryFn("set.update", lambda it_, a, k: [_set_add(it_, o, x) for s in a for x in it_.iterate(s)] and None)
        if name == "add":
            return SummaryFn("set.add", lambda it_, a, k: _set_add(it_, o, a[0]))
        if name == "remove":
            return SummaryFn("set.remove", lambda it_, a, k: _set_remove(it_, o, a[0]))
        if name == "discard":
            return SummaryFn("set.discard", lambda it_, a, k: _set_discard(it_, o, a[0]))
    if isinstance(o, str):
        if name == "join":
            return SummaryFn("str.join", lambda it_, a, k: _str_join(it_, o, a[0]))
        if name in ("startswith", "endswith", "split"):
            return SummaryFn("str." + name, lambda it_, a, k: _str_method(it_, o, name, *a))
    try:
        return getattr(o, name)
    except AttributeError as e:
        raise PyRaise(AttributeError(str(e)))


def _super_lookup(o, name):
    if isinstance(o.self_v, ClassV) and type in o.cls.mro:
        # super() inside a metaclass method: continue along the metaclass MRO
        return o.cls.lookup(name, after=o.cls)
    cls = o.self_v.cls if isinstance(o.self_v, (Obj, SymObj)) else o.self_v
    return cls.lookup(name, after=o.cls)


def native_setattr(it, o, name, v):
    if isinstance(o, (ast.AST,)) or hasattr(o, "__dict__"):
        try:
            setattr(o, name, v)
            return
        except Exception as e:
            raise PyRaise(AttributeError(str(e)))
    raise PyRaise(AttributeError(f"'{type(o).__name__}' object has no attribute '{name}'"))


def native_getitem(it, o, k):
    if isinstance(o, SplitResult):
        return split_getitem(it, o, k)
    try:
        return o[k]
    except (KeyError, IndexError, TypeError) as e:
        raise PyRaise(type(e)(*e.args))


def native_contains(it, container, x):
    if isinstance(container, (Sym, SymSeq, ListTerm)):
        raise Unsupported("membership in symbolic container")
    try:
        return x in container
    except TypeError as e:
        raise PyRaise(TypeError(str(e)))


def _dict_get(it, d, k, default=None):
    found, v = it.dict_find(d, k)
    return v if found else default


def _dict_pop(it, d, k, *default):
    found, v = it.dict_find(d, k)
    if found:
        it.delitem(d, k)
        return v
    if default:
        return default[0]
    raise PyRaise(KeyError(k))


def _dict_setdefault(it, d, k, default=None):
    found, v = it.dict_find(d, k)
    if found:
        return v
    it.setitem(d, k, default)
    return default


def _dict_update(it, d, other=(), **kw):
    if isinstance(other, dict):
        for k in list(other.keys()):
            it.setitem(d, k, dict.__getitem__(other, k))
    else:
        for k, v in it.iterate(other):
            it.setitem(d, k, v)
    for k, v in kw.items():
        it.setitem(d, k, v)


def _list_cmp_method(it, o, name, x):
    if name == "__contains__":
        return it.contains(o, x)
    if name == "count":
        return sum(1 for y in o if it.decide_eq(y, x))
    if name == "index":
        for i, y in enumerate(o):
            if it.decide_eq(y, x):
                return i
        raise PyRaise(ValueError("not in list"))
    if name == "remove":
        for i, y in enumerate(o):
            if it.decide_eq(y, x):
                del o[i]
                return None
        raise PyRaise(ValueError("list.remove(x): x not in list"))


def _set_add(it, s, x):
    _hashcheck(it, x)
    if not any(it.decide_eq(y, x) for y in list(s)):
        s.add(x)


def _set_remove(it, s, x):
    for y in list(s):
        if it.decide_eq(y, x):
            s.remove(y)
            return
    raise PyRaise(KeyError(x))


def _set_discard(it, s, x):
    for y in list(s):
        if y is x or it.decide_eq(y, x):
            s.remove(y)
            return


def _str_join(it, sep, xs):
    parts = [p for p in it.iterate(xs)]
    if all(isinstance(p, str) for p in parts):
        return sep.join(parts)
    t = None
    for i, p in enumerate(parts):
        pt = z3.StringVal(p) if isinstance(p, str) else p.t
        if i:
            t = z3.Concat(t, z3.StringVal(sep), pt)
        else:
            t = pt
    return SStr(t)


def _str_method(it, s, name, *a):
    if any(isinstance(x, Sym) for x in a):
        st = SStr(z3.StringVal(s))
        return sym_attr(it, st, name).fn(it, list(a), {})
    return getattr(s, name)(*a)


_split_head = z3.Function("split_head", z3.StringSort(), z3.StringSort(), z3.StringSort())


def sym_attr(it, v, name):
    if v.kind == "str":
        if name == "startswith":
            return SummaryFn("str.startswith", lambda it_, a, k: concretize(SBool(
                z3.Or(*[z3.PrefixOf(_st(p), v.t) for p in a[0]]) if isinstance(a[0], tuple) else z3.PrefixOf(_st(a[0]), v.t))))
        if name == "endswith":
            return SummaryFn("str.endswith", lambda it_, a, k: concretize(SBool(
                z3.Or(*[z3.SuffixOf(_st(p), v.t) for p in a[0]]) if isinstance(a[0], tuple) else z3.SuffixOf(_st(a[0]), v.t))))
        if name == "split":
            return SummaryFn("str.split", lambda it_, a, k: SplitResult(v, a[0]))
        if name == "strip":
            f = z3.Function("str_strip", z3.StringSort(), z3.StringSort())
            return SummaryFn("str.strip", lambda it_, a, k: SStr(f(v.t)))
    if v.kind == "val" and name in getattr(it, "val_attrs", ()):
        f = z3.Function("attr_" + name, Val, Val)
        return SVal(f(v.t))
    raise Unsupported(f"attribute {name} of symbolic {v.kind}")


class SplitResult:
    """x.split(sep) of a symbolic string: only [0] is supported (uninterpreted head with its defining property)."""

    def __init__(self, s, sep):
        self.s = s
        self.sep = sep


def _st(x):
    return x.t if isinstance(x, Sym) else z3.StringVal(x)


def sym_getitem(it, o, k):
    # s[a:] of a symbolic string with a concrete non-negative start: the suffix from a (empty when the string is shorter)
    if isinstance(o, Sym) and o.kind == "str" and isinstance(k, slice) and isinstance(k.start, int) and k.start >= 0 and k.stop is None and k.step is None:
        n = z3.Length(o.t)
        return SStr(z3.If(n >= k.start, z3.SubString(o.t, k.start, n - k.start), z3.StringVal("")))
    raise Unsupported(f"subscript of symbolic value {o!r}")


def split_getitem(it, o, k):
    if k == 0:
        sep = _st(o.sep)
        h = _split_head(o.s.t, sep)
        # defining property of s.split(sep)[0]: the prefix of s before the first sep (s itself if sep does not occur)
        it.ctx.assume(z3.PrefixOf(h, o.s.t))
        it.ctx.assume(z3.Not(z3.Contains(h, sep)))
        it.ctx.assume(z3.If(z3.Contains(o.s.t, sep), z3.PrefixOf(z3.Concat(h, sep), o.s.t), h == o.s.t))
        return concretize(SStr(h))
    raise Unsupported("split()[k] for k != 0 on a symbolic string")


def sym_index(it, o, k):
    raise Unsupported("symbolic index into concrete sequence")


mk_tuple2 = z3.Function("mk_tuple2", Val, Val, Val)
mk_tuple3 = z3.Function("mk_tuple3", Val, Val, Val, Val)
HOLE = z3.Const("HOLE", Val)  # the bound variable of seq_map terms
from .sym import Log as _Log, log_nil as _nil, log_snoc as _snoc, log_cat as _cat  # noqa: E402
seq_map = z3.Function("seq_map", _Log, Val, _Log)         # map (lambda HOLE. body) over a list term
seq_val = z3.Function("seq_val", _Log, Val)               # a list term used as a value
lt_nonempty = z3.Function("lt_nonempty", _Log, z3.BoolSort())


def enc(it, v):
    """Encode an engine value as a Val term (tuples structurally, list terms via seq_val)."""
    if isinstance(v, tuple) and len(v) == 2:
        return mk_tuple2(enc(it, v[0]), enc(it, v[1]))
    if isinstance(v, tuple) and len(v) == 3:
        return mk_tuple3(enc(it, v[0]), enc(it, v[1]), enc(it, v[2]))
    if isinstance(v, ListTerm):
        return seq_val(v.t)
    if isinstance(v, SymSeq) and getattr(v, "term", None) is not None:
        return seq_val(v.term)
    return it.to_val(v)


def listterm_of(it, v):
    if isinstance(v, ListTerm):
        return v.t
    if isinstance(v, SymSeq):
        t = getattr(v, "term", None)
        if t is None:
            raise Unsupported(f"symbolic sequence {v.name} has no term")
        return t
    if isinstance(v, (list, tuple)):
        t = _nil
        for x in v:
            t = _snoc(t, enc(it, x))
        return t
    raise Unsupported("listterm_of " + type(v).__name__)


def symseq_attr(it, o, name):
    if isinstance(o, ListTerm):
        if name == "append":
            def app(it_, a, k):
                o.t = _snoc(o.t, enc(it_, a[0]))
            return SummaryFn("ListTerm.append", app)
        if name == "extend":
            def ext(it_, a, k):
                o.t = _cat(o.t, listterm_of(it_, a[0]))
            return SummaryFn("ListTerm.extend", ext)
    raise Unsupported(f"attribute {name} of symbolic sequence")


def seq_binop(it, op, a, b):
    if isinstance(op, ast.Add):
        return ListTerm(_cat(listterm_of(it, a), listterm_of(it, b)))
    raise Unsupported("operator on symbolic sequences")


def symbolic_listcomp(it, node, env, seq):
    """[elt for x in SymSeq if cond]  ==  guarded map of the sequence (the comprehension IS filter-map)."""
    g = node.generators[0]

    def build(i):
        cenv = Env(parent=env, module=env.module)
        cenv.cls = env.cls
        it.assign(g.target, seq.elem(i), cenv)
        return cenv

    # the guard and element are evaluated lazily per index by re-interpreting the comprehension body;
    # conditions must be side-effect free (they are pure predicate calls in ptera)
    def guard(i):
        if seq.guard is not None:
            g0 = seq.guard(i)
            if not (g0 if isinstance(g0, bool) else it.ctx.decide(g0)):
                return False
        cenv = build(i)
        for c in g.ifs:
            if not it.truth(it.eval(c, cenv)):  # forks on the real filter expression
                return False
        return True

    def elem(i):
        cenv = build(i)
        return it.eval(node.elt, cenv)

    out = SymSeq(f"comp({seq.name})", seq.n, elem, guard if (g.ifs or seq.guard is not None) else None)
    base_t = getattr(seq, "term", None)
    if base_t is not None and not g.ifs and seq.guard is None:
        # canonical term: map (lambda HOLE. elt) over the base list
        cenv = Env(parent=env, module=env.module)
        cenv.cls = env.cls
        it.assign(g.target, SVal(HOLE), cenv)
        try:
            out.term = seq_map(base_t, enc(it, it.eval(node.elt, cenv)))
        except Unsupported:
            out.term = None
    return out


def native_base_init(it, o, own, args, kwargs):
    if isinstance(own, type) and issubclass(own, BaseException):
        o.exc_args = tuple(args)
        return
    if own in (ast.NodeVisitor, ast.NodeTransformer, object):
        return
    hook = getattr(it, "native_init_hook", None)
    if hook and hook(o, own, args, kwargs):
        return
    raise Unsupported(f"constructor of native base {own}")


def native_base_call(it, self_v, own, name, args, kwargs):
    if name == "__init__":
        return native_base_init(it, self_v, own, args, kwargs)
    if name == "__call__" and own is type:
        # type.__call__(cls, **kw): plain construction
        return it.construct(self_v, args, kwargs)
    if name == "__new__" and own is type:
        raise Unsupported("type.__new__")
    raise Unsupported(f"native base method {own}.{name}")


def native_base_attr(it, o, own, name, v):
    if own in (ast.NodeVisitor, ast.NodeTransformer):
        f = it.node_visitor_model(name)
        return BoundV(o, f)
    if isinstance(own, type) and issubclass(own, BaseException):
        if name == "args":
            return o.exc_args
        if name == "with_traceback":
            return SummaryFn("with_traceback", lambda it_, a, k: o)
    hook = getattr(it, "native_attr_hook", None)
    if hook:
        r = hook(o, own, name, v)
        if r is not UNDEF:
            return r
    raise Unsupported(f"attribute {name} of native base {own}")


def _ctxvar(it, var, name, args, kwargs):
    if name == "get":
        if var.value is None and args:
            return args[0]
        return var.value
    if name == "set":
        tok = TokenModel(var, var.value)
        var.value = args[0]
        var.history.append(("set", args[0]))
        return tok
    if name == "reset":
        tok = args[0]
        if not isinstance(tok, TokenModel) or tok.var is not var:
            raise PyRaise(ValueError("token was created by a different ContextVar"))
        if tok.used:
            raise PyRaise(RuntimeError("token has already been used once"))
        tok.used = True
        var.value = tok.old
        var.history.append(("reset", tok.old))
        return None
    raise Unsupported("ContextVar." + name)


_TRANSPARENT_NATIVE = (ast.AST,)


class Bridge:
    """An interpreted function handed to native code (e.g. the readline callback given to tokenize)."""

    def __init__(self, it, f):
        self.it, self.f = it, f

    def __call__(self, *a, **k):
        try:
            return self.it.call(self.f, list(a), k)
        except PyRaise as e:
            if isinstance(e.value, BaseException):
                raise e.value
            raise RuntimeError(f"interpreted exception {e.value!r} crossed into native code")


def call_native(it, fn, args, kwargs):
    args = [Bridge(it, a) if isinstance(a, (FuncV, BoundV)) else a for a in args]
    # type objects used as constructors / checks
    self_obj = getattr(fn, "__self__", None)
    if fn is _b.super:
        raise Unsupported("explicit super(...)")
    if isinstance(fn, type):
        if issubclass(fn, ast.AST):
            return fn(*args, **kwargs)
        if issubclass(fn, BaseException):
            return fn(*[a if not isinstance(a, Sym) else "<sym>" for a in args])
        if fn is collections.defaultdict:
            args = [getattr(_b, a.name) if isinstance(a, SummaryFn) and hasattr(_b, a.name) else a for a in args]
            return collections.defaultdict(*args)
        if fn is collections.Counter and not args:
            return collections.Counter()
        if fn in (dict,):
            d = {}
            if args:
                _dict_update(it, d, args[0])
            for k, v in kwargs.items():
                d[k] = v
            return d
        if fn is object:
            return object()
        if fn in (int, float) and args and not _has_sym(args[0]):
            try:
                return fn(*args)
            except ValueError as e:
                raise PyRaise(ValueError(str(e)))
    if any(_has_sym(a) for a in args) or any(_has_sym(v) for v in kwargs.values()):
        ok = False
        if self_obj is not None and isinstance(self_obj, (list, dict, collections.Counter)) and fn.__name__ in (
            "append", "insert", "pop", "items", "keys", "values", "copy", "clear"):
            ok = True
        if fn in (ast.copy_location, ast.fix_missing_locations):
            ok = True
        if not ok:
            raise Unsupported(f"native call {getattr(fn, '__qualname__', fn)} with symbolic argument")
    if fn is functools.reduce:
        f, xs, *init = args
        items = it.iterate(xs)
        if init:
            acc = init[0]
        else:
            if not items:
                raise PyRaise(TypeError("reduce() of empty iterable with no initial value"))
            acc, items = items[0], items[1:]
        for x in items:
            acc = it.call(f, [acc, x], {})
        return acc
    if fn is list.__add__:
        return list.__add__(*args)
    try:
        return fn(*args, **kwargs)
    except (PathEnd, Unsupported, PyRaise):
        raise
    except (KeyError, IndexError, TypeError, AttributeError, ValueError, StopIteration, ZeroDivisionError, NameError, SyntaxError, OSError, AssertionError) as e:
        raise PyRaise(e)
