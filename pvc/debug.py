"""python -m pvc.debug <prop> <unit> : run one unit in-process, print non-discharged obligations."""
import sys, os, traceback
ROOT = os.path.dirname(os.path.dirname(os.path.abspath(__file__)))
sys.path.insert(0, ROOT)
from pvc.driver import load_contracts
from pvc.units import UNITS
from pvc.world import World
from pvc.core import explore, Unsupported
prop, name = sys.argv[1], sys.argv[2]
load_contracts(prop)
u = UNITS[name]
try:
    res, st = explore(u.harness, World(), f"{prop}/{name}", max_paths=u.max_paths)
except Unsupported as e:
    print("UNSUPPORTED", e); traceback.print_exc(); sys.exit(0)
bad = [o for o in res if o.status != "discharged"]
print(f"{len(res)} obligations, {len(bad)} not discharged, paths={st['paths']} covered={st['covered']}")
print('notes:', sorted(set(st['notes']))[:20])
seen=set()
for o in bad:
    if (o.name) in seen and '-v' not in sys.argv: continue
    seen.add(o.name)
    print("--", o.name, o.status, "path", o.path, o.note)
    print("   goal:", o.goal[:600])
    print("   model:", o.model)
