"""Native replay of a schema-unit obligation: the SAME harness is run again, but the real ptera code is executed by
CPython (no interpreter), following the recorded decisions of the failing path.
usage: python -m pvc.native <contract-module> <unit> <property> <obligation> <decisions-json>"""
import importlib
import json
import os
import sys

ROOT = os.path.dirname(os.path.dirname(os.path.abspath(__file__)))
sys.path.insert(0, ROOT)
sys.path.insert(0, os.environ.get("PVC_REPO", "/repo"))


class NativeCtx:
    native = True

    def __init__(self, prefix, unit):
        self.prefix = list(prefix)
        self.pos = 0
        self.unit = unit
        self.results = []
        self.notes = []
        self.inputs = {}
        self._id = 5000
        self.covered = set()

    def choose(self, n, label=""):
        v = self.prefix[self.pos] if self.pos < len(self.prefix) else 0
        self.pos += 1
        return v

    def decide(self, b):
        if not isinstance(b, bool):
            raise RuntimeError("symbolic decision in a native replay")
        return b

    def new_id(self):
        self._id += 1
        return self._id

    def cover(self, label):
        self.covered.add(label)

    def prove(self, name, goal, kind="property", note="", only=None):
        if only is not None and self.unit.split("/")[0] not in only:
            return True
        if not isinstance(goal, bool):
            raise RuntimeError("symbolic goal in a native replay")
        self.results.append((f"{self.unit}/{name}", goal, note))
        return goal


class NativeModels:
    @staticmethod
    def absent(it):
        from ptera.utils import ABSENT

        return ABSENT


class NativeInterp:
    """Stands in for pvc.interp.Interp: attribute access and calls are plain CPython."""
    native = True

    def __init__(self, ctx):
        self.ctx = ctx
        self.policies = {}
        self.models = NativeModels

    def get_global(self, module, name):
        if module == "pystd.ast":
            import ast

            return getattr(ast, name)
        return getattr(importlib.import_module(module), name)

    def getattr(self, o, name, env=None):
        return getattr(o, name)

    def call(self, fn, args=(), kwargs=None):
        return fn(*args, **(kwargs or {}))

    def module_env(self, name):
        class E:
            vars = {}

        return E()


def native_run(fn, args=(), kwargs=None):
    try:
        return "ok", fn(*args, **(kwargs or {}))
    except BaseException as e:  # noqa
        return "raise", e


def main(argv):
    modname, unit, prop, obligation, decisions = argv[0], argv[1], argv[2], argv[3], json.loads(argv[4])
    mod = importlib.import_module(modname)
    from pvc.units import UNITS

    u = UNITS[unit]
    ctx = NativeCtx(decisions, f"{prop}/{unit}")
    u.harness(ctx)
    hit = [r for r in ctx.results if r[0] == obligation]
    for name, ok, note in hit:
        print(("HOLDS " if ok else "FAILS ") + name + ((" -- " + str(note)[:600]) if note else ""))
    if not hit:
        print("obligation not reached natively on this path")
        return 0
    return 1 if any(not ok for _, ok, _ in hit) else 0


if __name__ == "__main__":
    try:
        rc = main(sys.argv[1:])
    except BaseException:  # noqa  -- a crash of the replay is not a reproduction
        import traceback

        traceback.print_exc()
        rc = 2
    sys.exit(rc)
