"""Check driver:  python -m pvc.driver <property-id> <quick|thorough>   (cwd = /verif)

Exit codes: 0 held (possibly with KNOWN-FINDING / UNDECIDED lines), 1 violation, 3 checker fault.
"""
import hashlib
import importlib
import json
import multiprocessing as mp
import os
import re
import subprocess
import sys
import time
import traceback

ROOT = os.path.dirname(os.path.dirname(os.path.abspath(__file__)))
sys.path.insert(0, ROOT)

from pvc import world as _world  # noqa: E402
from pvc.core import explore, Unsupported, PathEnd  # noqa: E402
from pvc.units import UNITS  # noqa: E402
from pvc import models as _models  # noqa: E402

_RT = ["contracts.runtime"]
_IN = ["contracts.interpret"]
_OV = ["contracts.overlay"]
_LC = ["contracts.lifecycle"]
_TF = ["contracts.transform"]
_SP = ["contracts.selparse"]
_MO = ["contracts.more"]
_ALL = ["contracts.c12"] + _RT + _TF + _LC + _SP + _MO + _OV + _IN + ["contracts.tags", "contracts.lemmas", "contracts.refs"]
# every contract module is loaded for every property: a unit takes part in a property's check iff the property is in its props
# (module lists per property used to be maintained by hand, and seeded changes were missed because a unit lived in a module that
# the property's list did not name)
CONTRACT_MODULES = {p: list(_ALL) for p in ("C01", "C02", "C03", "C04", "C05", "C06", "C07", "C09", "C10", "C11", "C12", "C13", "C14", "C15", "C16", "C17", "C18")}

UNIT_WALL_BUDGET = {"quick": 150, "thorough": 600}


def load_contracts(prop):
    for m in CONTRACT_MODULES.get(prop, []):
        importlib.import_module(m)
    return [u for u in UNITS.values() if prop in u.props]


def _run_unit(args):
    name, prop, tier = args
    try:
        load_contracts(prop)
        u = UNITS[name]
        W = _world.World()
        t0 = time.time()
        try:
            res, st = explore(lambda c: u.harness(c), W, f"{prop}/{name}", max_paths=u.max_paths,
                              keep_smt=(tier == "thorough"), wall_budget=UNIT_WALL_BUDGET[tier])
            err = ("incomplete: " + st["incomplete"]) if st.get("incomplete") else None
        except Unsupported as e:
            res, st, err = [], {"paths": 0, "covered": [], "solver_time_s": 0, "notes": []}, f"unsupported: {e}"
        shas = {}
        for t in u.targets:
            try:
                shas[t] = W.sha(t)
            except Exception as e:  # function vanished: out of reach
                shas[t] = None
                err = (err or "") + f" target-missing: {t}"
        return {
            "unit": name,
            "mode": u.mode,
            "bound": u.bound,
            "obligations": [o.as_dict() for o in res],
            "smt2": {o.name + "@" + (o.path or ""): o.smt2 for o in res if o.smt2} if tier == "thorough" else {},
            "stats": st,
            "error": err,
            "wall_s": time.time() - t0,
            "targets": shas,
        }
    except Exception:
        return {"unit": name, "mode": "?", "bound": None, "obligations": [], "smt2": {}, "stats": {"paths": 0, "covered": [], "solver_time_s": 0, "notes": []},
                "error": "crash: " + traceback.format_exc(), "wall_s": 0, "targets": {}}


def load_known():
    p = os.path.join(ROOT, "known_findings.json")
    if os.path.exists(p):
        return json.load(open(p))
    return {"findings": [], "fixed": []}


def slug(s):
    return re.sub(r"[^A-Za-z0-9_.-]+", "_", s)[:150]


def cvc5_check(smt2, timeout=20):
    """Cross-check one obligation with cvc5 (thorough tier).  Returns 'unsat' | 'sat' | 'unknown'."""
    try:
        p = subprocess.run(["/usr/bin/cvc5", "--lang=smt2", "--strings-exp", f"--tlimit={timeout * 1000}"],
                           input=smt2 + "\n(check-sat)\n" if "(check-sat)" not in smt2 else smt2,
                           capture_output=True, text=True, timeout=timeout + 5)
        out = p.stdout.strip().splitlines()
        for line in out:
            if line in ("sat", "unsat", "unknown"):
                return line
        return "unknown"
    except Exception:
        return "unknown"


def run_canaries(prop):
    import shutil
    import tempfile

    out = {"run": 0, "killed": [], "survived": [], "skipped": []}
    sd = os.path.join(ROOT, "seeded")
    repo = os.environ.get("PVC_REPO", "/repo")
    for d in sorted(os.listdir(sd)) if os.path.isdir(sd) else []:
        if d.split("-")[0].rstrip("abcdefghijklmnopqrstuvwxyz") != prop or not os.path.exists(os.path.join(sd, d, "patch.diff")):
            continue
        tmp = tempfile.mkdtemp(prefix="pvc_canary_")
        try:
            shutil.copytree(os.path.join(repo, "ptera"), os.path.join(tmp, "ptera"))
            p = subprocess.run(["patch", "-p1", "-s", "-d", tmp, "-i", os.path.join(sd, d, "patch.diff")], capture_output=True, text=True)
            if p.returncode != 0:
                out["skipped"].append(d)  # the library changed under the patch
                continue
            out["run"] += 1
            env = {**os.environ, "PVC_REPO": tmp, "PVC_EVIDENCE_DIR": os.path.join(tmp, "evidence"), "PVC_CANARY": "0", "PVC_NO_DEMOS": "1"}
            r = subprocess.run([sys.executable, "-m", "pvc.driver", prop, "quick"], cwd=ROOT, env=env, capture_output=True, text=True, timeout=900)
            (out["killed"] if r.returncode == 1 and "VIOLATION" in r.stdout else out["survived"]).append(d)
        except Exception as e:  # noqa
            out["skipped"].append(f"{d}: {type(e).__name__}")
        finally:
            shutil.rmtree(tmp, ignore_errors=True)
    return out


def main(argv):
    if len(argv) >= 2 and argv[0] == "--replay":
        return subprocess.call([sys.executable, argv[1]])
    prop = argv[0]
    tier = argv[1] if len(argv) > 1 else os.environ.get("VERIF_TIER", "quick")
    seed = int(os.environ.get("VERIF_SEED", "0"))
    t0 = time.time()
    units = load_contracts(prop)
    if not units:
        print(f"CHECKER-FAULT no units registered for {prop}")
        return 3
    if tier == "quick":
        units = [u for u in units if not getattr(u, "thorough_only", False)]
    def run_jobs(us):
        jobs = [(u.name, prop, tier) for u in us]
        if not jobs:
            return []
        out = []
        with mp.get_context("fork").Pool(min(16, len(jobs))) as pool:
            asyncs = [(j, pool.apply_async(_run_unit, (j,))) for j in jobs]
            for j, a in asyncs:
                try:
                    out.append(a.get(timeout=UNIT_WALL_BUDGET[tier] + 60))
                except mp.TimeoutError:
                    out.append({"unit": j[0], "mode": UNITS[j[0]].mode, "bound": UNITS[j[0]].bound, "obligations": [], "smt2": {},
                                "stats": {"paths": 0, "covered": [], "solver_time_s": 0, "notes": []},
                                "error": "timeout: unit exceeded its wall budget", "wall_s": UNIT_WALL_BUDGET[tier], "targets": {}})
            pool.terminate()
        return out

    # phase 1: primary units (and, in the thorough tier, every bounded stand-in as well)
    primary = [u for u in units if u.fallback_for is None or tier == "thorough"]
    results = run_jobs(primary)
    if tier == "quick":
        # phase 2: a bounded stand-in runs only when the unit it stands in for is undecided (DESIGN 8.1)
        und = {r["unit"] for r in results if r["error"] or any(o["status"] == "undecided" for o in r["obligations"])}
        results += run_jobs([u for u in units if u.fallback_for is not None and u.fallback_for in und])

    known = load_known()
    known_by_ob = {}
    for f in known.get("findings", []):
        if f["property"] == prop:
            known_by_ob.setdefault(f["obligation"], []).append(f)

    # property-specific native hooks (replay of counterexamples, bounded native stand-ins)
    hooks = None
    try:
        hooks = importlib.import_module(f"contracts.{prop.lower()}_native")
    except ModuleNotFoundError:
        hooks = None

    n_ob = n_dis = 0
    n_bounded_ob = n_bounded_dis = 0
    by_backend = {"z3": 0, "cvc5": 0}
    solver_time = 0.0
    undecided = []
    violations = []
    known_matched = []
    faults = []
    samples = []
    functions = {}
    executed_all = set()
    bounded = []
    disagreements = 0
    cvc5_checked = 0
    distinct_names = set()
    out_dir = os.path.join(ROOT, "out", "replay")
    os.makedirs(out_dir, exist_ok=True)

    for r in results:
        u = UNITS[r["unit"]]
        solver_time += r["stats"].get("solver_time_s", 0)
        for t, h in r["targets"].items():
            functions[t] = h
        for q in r["stats"].get("executed", []):
            executed_all.add(q)
        if r["error"]:
            if r["error"].startswith("crash"):
                faults.append(f"{r['unit']}: {r['error']}")
            else:
                undecided.append({"unit": r["unit"], "reason": r["error"]})
        if u.mode == "bounded":
            bounded.append({"unit": r["unit"], "bound": u.bound, "obligations": len(r["obligations"]),
                            "discharged": sum(1 for o in r["obligations"] if o["status"] == "discharged")})
        if not r["obligations"] and not r["error"]:
            faults.append(f"{r['unit']}: zero obligations generated (vacuity guard)")
        for o in r["obligations"]:
            distinct_names.add(o["name"])
            is_known = o["name"] in known_by_ob
            if o["status"] == "discharged":
                if tier == "thorough":
                    smt = r["smt2"].get(o["name"] + "@" + (o["path"] or ""))
                    if smt and cvc5_checked < 400 and o["goal"] not in ("true", "True"):
                        cvc5_checked += 1
                        cr = cvc5_check(smt)
                        if cr == "sat":
                            disagreements += 1
                            faults.append(f"solver disagreement on {o['name']} path {o['path']}: z3 unsat, cvc5 sat")
                        elif cr == "unsat":
                            by_backend["cvc5"] += 1
                if u.mode == "bounded":
                    n_bounded_ob += 1
                    n_bounded_dis += 1
                else:
                    n_ob += 1
                    n_dis += 1
                by_backend["z3"] += 1
                if len(samples) < 6 and o["goal"] not in ("True", "true"):
                    samples.append({"obligation": o["name"], "path": o["path"], "goal": o["goal"][:300], "solver": o["solver"], "ms": o["ms"]})
            elif o["status"] == "undecided":
                if u.mode == "bounded":
                    n_bounded_ob += 1
                else:
                    n_ob += 1
                undecided.append({"unit": r["unit"], "obligation": o["name"], "path": o["path"], "reason": o["note"]})
            else:  # failed
                if is_known:
                    if o["name"] not in [k["obligation"] for k in known_matched]:
                        known_matched.append({"obligation": o["name"], "what_fails": known_by_ob[o["name"]][0]["what_fails"], "model": o["model"]})
                    continue
                if u.mode == "bounded":
                    n_bounded_ob += 1
                else:
                    n_ob += 1
                if any(m and m in o["name"] for m in os.environ.get("PVC_MAINTENANCE_IGNORE", "").split(",")):
                    # maintenance runs only (tools_mutate.py against a base that predates a repair): never set by a registered command
                    continue
                violations.append((u, o))

    # native hooks: bounded native stand-ins and known-finding probes
    native_report = None
    reports = []
    if hooks is not None and hasattr(hooks, "native_checks"):
        try:
            native_report = hooks.native_checks(tier, seed)
            reports.append(native_report)
        except Exception:
            faults.append("native hooks crashed: " + traceback.format_exc())
    try:
        from contracts import scenarios as _scen

        reports.append(_scen.native_checks(prop, tier))
    except Exception:
        faults.append("scenario corpus crashed: " + traceback.format_exc())
    for native_report in reports:
        if native_report:
            for b in native_report.get("bounded", []):
                bounded.append(b)
                n_bounded_ob += b.get("obligations", 0)
                n_bounded_dis += b.get("discharged", 0)
            for v in native_report.get("violations", []):
                violations.append((None, v))
            for k in native_report.get("known", []):
                if k["obligation"] in known_by_ob:
                    known_matched.append(k)
                else:
                    violations.append((None, {"name": k["obligation"], "model": k.get("model"), "goal": k.get("what_fails", ""), "path": "", "native": True, "script": k.get("script")}))

    # thorough tier: canaries -- every seeded change kept for this property is applied to a scratch copy of the library and
    # the quick check must report it; a surviving canary is a checker fault (DESIGN 2.8)
    canaries = None
    if tier == "thorough" and os.environ.get("PVC_CANARY", "1") != "0":
        canaries = run_canaries(prop)
        for nm in canaries["survived"]:
            faults.append(f"canary {nm} survived: the seeded change is no longer reported")

    exit_code = 0
    lines = []
    seen_v = set()
    for u, o in violations:
        if o["name"] in seen_v:
            continue
        seen_v.add(o["name"])
        path = os.path.join(out_dir, f"{prop}_{slug(o['name'])}.py")
        script = o.get("script")
        reproduced = bool(script)
        if not script and u is not None and u.replay is not None:
            try:
                script = u.replay(o)
                reproduced = bool(script)
            except Exception:
                script = None
        if not script and hooks is not None and hasattr(hooks, "replay"):
            try:
                script = hooks.replay(o)
                reproduced = bool(script)
            except Exception:
                script = None
        body = script or ("import sys\nprint('obligation failed; no concrete failing input was derived')\nsys.exit(1)\n")
        with open(path, "w") as f:
            f.write("# replay file written by pvc.driver\n")
            f.write("# property: %s\n# failed obligation: %s\n# path: %s\n" % (prop, o["name"], o.get("path")))
            f.write("# goal (simplified): %s\n" % str(o.get("goal", "")).replace("\n", " ")[:1500])
            f.write("# solver: z3 said the negated goal is satisfiable under the path condition; model of the inputs:\n")
            f.write("# %s\n" % json.dumps(o.get("model"), default=str)[:3000])
            f.write(body)
        if script and len(lines) >= 6:
            # a change that breaks thousands of inputs is replayed on the first few only (each replay is a process)
            reproduced = bool(o.get("native")) or "native" in o["name"]
            script = None
            with open(path, "a") as f:
                f.write("\n# (not replayed: more than 6 violations in this run)\n")
        if script:
            # replay natively against the real code of the same working tree: exit 1 = failure reproduced
            try:
                rp = subprocess.run([sys.executable, path], capture_output=True, text=True, timeout=120)
                reproduced = rp.returncode == 1
                with open(path, "a") as f:
                    f.write("\n# --- native replay output (exit %d) ---\n" % rp.returncode)
                    for ln in (rp.stdout + rp.stderr).splitlines()[-15:]:
                        f.write("# " + ln + "\n")
            except Exception as e:
                reproduced = False
        if script and not reproduced and u is not None and getattr(u, "replay_decides", False):
            # the counterexample is a shape the real front end cannot produce (or the engine was imprecise): undecided
            undecided.append({"unit": u.name, "obligation": o["name"], "reason": "counterexample did not replay natively"})
            continue
        tail = "" if reproduced else " no-failing-input-found"
        lines.append(f"VIOLATION property={prop} replay={path}{tail}")
        exit_code = 1
    for k in known_matched:
        print(f"KNOWN-FINDING: property={prop} {k['obligation']} -- {k['what_fails']}")
    for x in undecided:
        print(f"UNDECIDED unit={x.get('unit')} obligation={x.get('obligation', '-')} reason={str(x.get('reason'))[:300]}")
    for f in faults:
        print("CHECKER-FAULT " + (f if len(f) < 2500 else f[:300] + " ... " + f[-2200:]))
    for line in lines[:40]:
        print(line)
    if len(lines) > 40:
        print(f"({len(lines) - 40} more violations of property {prop} are listed in the evidence file)")
    if faults and exit_code == 0:
        exit_code = 3

    proof_units_ok = all(not r["error"] for r in results if UNITS[r["unit"]].mode == "proof")
    level = "proof" if (n_ob > 0 and n_dis == n_ob and proof_units_ok and not faults) else "other"
    try:
        man = json.load(open(os.path.join(ROOT, "MANIFEST.json")))
        claimed = [ck["level_claimed"]["category"] for ck in man["checks"] if ck["property_id"] == prop]
        if claimed and claimed[0] != "proof":
            level = claimed[0]  # a deciding part of this property is only bounded: never reported as proof
    except Exception:
        pass
    trusted = sorted(set(_models.ASSUMED + [a for u in units for a in u.assumed]))
    ev = {
        "property_id": prop,
        "tier": tier,
        "seed": seed,
        "level": level,
        "coverage": {
            "obligations": n_ob,
            "discharged": n_dis,
            "checker_cmd": f"./check {prop} {tier}",
            "trusted_base": trusted,
            "by_backend": by_backend,
            "solver_time_s": round(solver_time, 3),
            "functions_under_contract": [{"name": k, "sha256": v} for k, v in sorted(functions.items())],
            "functions_executed_symbolically": sorted(q for q in executed_all if q.startswith(("ptera", "giving", "codefind", "pystd"))),
            "units": [{"unit": r["unit"], "mode": UNITS[r["unit"]].mode, "paths": r["stats"]["paths"], "obligations": len(r["obligations"]),
                       "wall_s": round(r["wall_s"], 2), "inlined_callees": UNITS[r["unit"]].inlined, "doc": UNITS[r["unit"]].doc[:300]} for r in results],
            "bounded": bounded,
            "bounded_obligations": n_bounded_ob,
            "bounded_discharged": n_bounded_dis,
            "undecided": undecided,
            "known_findings_matched": known_matched,
            "cvc5_cross_checked": cvc5_checked,
            "solver_disagreements": disagreements,
            "evaluations": n_ob + n_bounded_ob,
            "distinct_nontrivial": len(distinct_names),
            "rule": "one evaluation = one (obligation, path) pair sent to the solver; distinct = distinct obligation names",
            "samples": samples or [{"note": "no discharged obligation to show"}],
            "explanation": "obligations generated by symbolic execution of the real function bodies under sidecar contracts; "
                           "level is 'proof' only if every unbounded obligation was discharged in this run",
            "native": {"hooks": [r.get("summary") for r in reports if r]} if any(reports) else None,
            "canaries": canaries,
        },
        "assumptions": trusted,
        "wall_s": round(time.time() - t0, 2),
        "violations": len(lines),
    }
    ev_dir = os.environ.get("PVC_EVIDENCE_DIR") or os.path.join(ROOT, "evidence")  # maintenance runs on modified trees write elsewhere
    os.makedirs(ev_dir, exist_ok=True)
    with open(os.path.join(ev_dir, f"{prop}.json"), "w") as f:
        json.dump(ev, f, indent=1, default=str)
    print(f"{prop} {tier}: level={level} obligations={n_ob} discharged={n_dis} bounded={n_bounded_dis}/{n_bounded_ob} "
          f"undecided={len(undecided)} known={len(known_matched)} violations={len(lines)} wall={ev['wall_s']}s")
    return exit_code


if __name__ == "__main__":
    sys.exit(main(sys.argv[1:]))
