"""Spec functions defined by right recursion on an index: F(0)=init, F(i+1)=step(i, F(i)).

Symbolic use: an uninterpreted function plus instantiated unfolding equations (no quantifiers).
Bounded use: the fold computed in Python."""
import z3

_COUNTER = [0]


class Fold:
    def __init__(self, name, sort, init, step):
        _COUNTER[0] += 1
        self.name = name
        self.f = z3.Function(f"{name}", z3.IntSort(), sort)
        self.init = init
        self.step = step

    bounded = False

    def at(self, i):
        if isinstance(i, int):
            i = z3.IntVal(i)
        if self.bounded:
            k = z3.simplify(i)
            assert z3.is_int_value(k), "bounded fold used at a symbolic index"
            return self.concrete(k.as_long())
        return self.f(i)

    def axioms(self, i):
        if isinstance(i, int):
            i = z3.IntVal(i)
        return [self.f(z3.IntVal(0)) == self.init, self.f(i + 1) == self.step(i, self.f(i))]

    def concrete(self, k):
        acc = self.init
        for i in range(k):
            acc = self.step(z3.IntVal(i), acc)
        return acc
