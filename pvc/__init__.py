"""pvc -- a small contract-based deductive verifier for the Python subset used by ptera.

It re-reads the real source under /repo/ptera on every run, executes the function bodies
symbolically (concrete spine, symbolic leaves, loop-invariant rule for symbolic sequences),
generates named obligations and discharges them with z3 (and cvc5 in the thorough tier).
See /verif/DESIGN.md section 3.
"""
