"""Unit registry and harness helpers (the contract API of DESIGN 3.3, imperative form).

A *unit* is one contract check: a harness builds the symbolic shape (the validity part of the
precondition), runs the REAL function body through the interpreter, and states the clauses of
the contract with ctx.prove(name, term).  Units are registered per property.
"""
import z3

from .core import PathEnd, Unsupported, PyRaise, explore
from .interp import Interp, LoopSpec, exc_name
from .sym import Sym, Val, SInt, SBool, SStr, SVal, concretize, z3_bool
from .values import Obj, ClassV, FuncV, BoundV, SummaryFn, SymObj, SymSeq, ListTerm

UNITS = {}


class Unit:
    def __init__(self, name, props, targets, harness, mode="proof", bound=None, replay=None, inlined=(),
                 assumed=(), doc="", expect_fail=(), max_paths=4000, fallback_for=None, thorough_only=False, replay_decides=False):
        self.name = name
        self.props = props
        self.targets = list(targets)  # real functions whose bodies this unit executes under contract
        self.harness = harness
        self.mode = mode  # 'proof' (unbounded) or 'bounded'
        self.bound = bound
        self.replay = replay
        self.inlined = list(inlined)
        self.assumed = list(assumed)
        self.doc = doc
        self.expect_fail = list(expect_fail)
        self.max_paths = max_paths
        self.fallback_for = fallback_for
        self.thorough_only = thorough_only
        self.replay_decides = replay_decides


def unit(name, props, targets, mode="proof", **kw):
    def deco(fn):
        UNITS[name] = Unit(name, props, targets, fn, mode=mode, doc=(fn.__doc__ or "").strip(), **kw)
        return fn

    return deco


# ---------------------------------------------------------------------------------------
# shape helpers
# ---------------------------------------------------------------------------------------
def opt(c, sym, name):
    """Optional value: None or the symbolic value (forks)."""
    isnone = c.bool(name + "?none")
    return None if c.decide(isnone) else sym


def opt_int(c, name):
    return opt(c, c.int(name), name)


def mk_obj(it, module, clsname, **fields):
    """Allocate an instance of a real ptera class with the given field values (type invariant of
    the shape: exactly the fields the real __init__ sets)."""
    cls = it.get_global(module, clsname)
    o = Obj(cls, it.ctx.new_id())
    o.fields.update(fields)
    o.synthetic = True
    return o


def term_of(it, v):
    """Boolean term of a truth value."""
    t = it.truth_term(v)
    return z3.BoolVal(t) if isinstance(t, bool) else t


def bterm(x):
    if isinstance(x, bool):
        return z3.BoolVal(x)
    if isinstance(x, Sym):
        return x.t
    return x


def run(it, fn, args=(), kwargs=None):
    """Call and classify: ('ok', value) or ('raise', exception value)."""
    try:
        return "ok", it.call(fn, list(args), kwargs or {})
    except PyRaise as e:
        it.ctx.notes.append(f"raised {type(e.value).__name__}: {e.value!r}")
        return "raise", e.value


def callback(it, name, pure=False, may_raise=False, arity=None):
    """An unknown user function.  Logged in the ghost history; result is a function of the history
    (or, if pure, of the arguments only)."""
    ident = Val.opq(z3.IntVal(it.ctx.new_id()))
    nm = z3.StringVal(name)

    def fn(it_, args, kwargs):
        c = it_.ctx
        ev_args = [it_.to_val(a) if not isinstance(a, (dict, list, tuple)) else Val.ref(z3.IntVal(it_.models.native_id(it_, a))) for a in args]
        if pure:
            f = z3.Function(f"pure_{name}_{len(ev_args)}", *([Val] * len(ev_args)), Val)
            return SVal(f(*ev_args)) if ev_args else SVal(z3.Const(f"pure_{name}", Val))
        mk = z3.Function(f"ev_{name}_{len(ev_args)}", *([Val] * len(ev_args)), Val)
        ev = mk(*ev_args) if ev_args else z3.Const(f"ev_{name}", Val)
        st, r = c.opaque_call(ev, may_raise=may_raise)
        it_.ctx.__dict__.setdefault("calls", []).append((name, list(args), dict(kwargs)))
        if st == "raise":
            raise PyRaise(UserError(name))
        return r

    s = SummaryFn(name, fn)
    return s


class UserError(Exception):
    """The exception an opaque user callback raises in the model."""


def calls_of(c, name=None):
    cs = c.__dict__.get("calls", [])
    return [x for x in cs if name is None or x[0] == name]
