"""Engine values that are not plain Python natives."""
import z3

from .sym import Sym, Val, SInt, SBool, SStr, SVal


class Obj:
    """Instance of an interpreted (ptera / model) class.  Mutable; identity = Python identity."""

    def __init__(self, cls, oid):
        self.cls = cls
        self.fields = {}
        self.oid = oid
        self.exc_args = None  # for instances of classes deriving from a builtin exception

    def __repr__(self):
        return f"<{self.cls.name}#{self.oid}>"


class ClassV:
    """An interpreted class."""

    def __init__(self, name, module, node, bases, interp_env):
        self.name = name
        self.module = module
        self.node = node
        self.bases = bases  # list of ClassV or native types
        self.attrs = {}  # class-level attributes (methods as FuncV, constants)
        self.env = interp_env
        self.metaclass = None
        self.mro = self._mro()

    def _mro(self):
        out = [self]
        for b in self.bases:
            if isinstance(b, ClassV):
                for c in b.mro:
                    if c not in out:
                        out.append(c)
            else:
                for c in b.__mro__:
                    if c not in out:
                        out.append(c)
        return out

    def lookup(self, name, after=None):
        """MRO lookup.  Returns (owner, value) or (None, None)."""
        seen = after is None
        for c in self.mro:
            if not seen:
                if c is after:
                    seen = True
                continue
            if isinstance(c, ClassV):
                if name in c.attrs:
                    return c, c.attrs[name]
            else:
                if name in c.__dict__:
                    return c, c.__dict__[name]
        return None, None

    def is_subclass(self, other):
        return other in self.mro

    def native_base(self):
        for c in self.mro:
            if not isinstance(c, ClassV) and c is not object:
                return c
        return object

    def __repr__(self):
        return f"<class {self.name}>"


class FuncV:
    """An interpreted function: the real FunctionDef / Lambda plus its defining environment."""

    def __init__(self, node, env, module, name=None, owner=None, defaults=None, kw_defaults=None):
        self.node = node
        self.env = env  # Env of definition (closure)
        self.module = module
        self.name = name or getattr(node, "name", "<lambda>")
        self.owner = owner  # ClassV when defined in a class body
        self.defaults = defaults or []
        self.kw_defaults = kw_defaults or []
        self.marks = set()  # decorator marks: cached_property, property, ...
        self.attrs = {}
        self.oid = None

    def __repr__(self):
        return f"<func {self.name}>"


class BoundV:
    def __init__(self, self_v, func):
        self.self_v = self_v
        self.func = func

    def __repr__(self):
        return f"<bound {self.func!r} of {self.self_v!r}>"


class SummaryFn:
    """A callable implemented by the harness / model library in Python:  fn(interp, args, kwargs) -> value."""

    def __init__(self, name, fn):
        self.name = name
        self.fn = fn

    def __repr__(self):
        return f"<summary {self.name}>"


class SymObj:
    """An object of unknown class declared by a harness: symbolic identity, declared attributes,
    methods given as SummaryFn.  Used for 'any accumulator', 'any handler', 'any function object'."""

    def __init__(self, name, ident, attrs=None, cls=None, closed=False):
        self.name = name
        self.ident = ident  # z3 Val term
        self.attrs = dict(attrs or {})
        self.cls = cls  # optional ClassV when the class is known but fields symbolic
        self.closed = closed  # attrs is the complete attribute set (missing -> AttributeError)

    def __repr__(self):
        return f"<symobj {self.name}>"


class SymSeq:
    """A sequence of symbolic length.  The real list consists of elem(i) for the base indices
    0 <= i < n for which guard(i) holds (guard defaults to True).  Iteration needs a LoopSpec."""

    def __init__(self, name, n, elem, guard=None, kind="list"):
        self.name = name
        self.n = n  # z3 Int term
        self.elem = elem  # callable: z3 Int term -> engine value
        self.guard = guard  # callable: z3 Int term -> z3 Bool term, or None
        self.kind = kind

    def __repr__(self):
        return f"<symseq {self.name} n={self.n}>"


class ListTerm:
    """A list known only as a ghost term of sort Log (built by appends inside rule-governed loops)."""

    def __init__(self, t):
        self.t = t

    def __repr__(self):
        return f"<listterm {self.t}>"


class Env:
    """Lexical environment (function scope)."""

    def __init__(self, parent=None, module=None):
        self.vars = {}
        self.parent = parent
        self.module = module if module is not None else (parent.module if parent else None)
        self.nonlocals = set()
        self.globals_decl = set()
        self.cls = None  # defining class, for name mangling and zero-arg super
        self.self_v = None

    def lookup_env(self, name):
        e = self
        while e is not None:
            if name in e.vars:
                return e
            e = e.parent
        return None


UNDEF = object()
