"""Symbolic interpreter for the Python subset used by ptera (DESIGN 3.2 / appendix A).

Concrete spine, symbolic leaves.  Native Python objects (lists, dicts, ast nodes, strings) are
used wherever the value is concrete; paths are explored by re-execution, so native mutable
objects never need copying.
"""
import ast
import builtins as _builtins
import collections
import math

import z3

from .core import PathEnd, Unsupported, PyRaise
from .sym import Sym, Val, SInt, SBool, SStr, SVal, concretize, z3_bool, floor_mod, floor_div, eq_u, truthy_u
from .values import Obj, ClassV, FuncV, BoundV, SummaryFn, SymObj, SymSeq, ListTerm, Env, UNDEF


class _Return(Exception):
    def __init__(self, value):
        self.value = value


class _Break(Exception):
    pass


class _Continue(Exception):
    pass


def exc_class_of(v):
    if isinstance(v, Obj):
        return v.cls
    return type(v)


def exc_name(v):
    c = exc_class_of(v)
    return c.name if isinstance(c, ClassV) else c.__name__


def class_is_subclass(c, target):
    if isinstance(c, ClassV):
        return target in c.mro
    if isinstance(target, ClassV):
        return False
    return issubclass(c, target)


class _LiveList:
    """Iteration over a concrete list as CPython does it: by index against the live list, so that a body which removes or appends
    elements of the list it iterates skips / sees elements exactly as the real code would."""

    def __init__(self, lst):
        self.lst = lst

    def __iter__(self):
        i = 0
        while i < len(self.lst):
            yield self.lst[i]
            i += 1


class LoopSpec:
    """Closed-form loop invariant for a loop over a SymSeq (DESIGN 3.4).

    closed(interp, env, i)  -> {local name: engine value at the start of iteration i}
    facts(interp, env, i)   -> list of z3 Bool terms holding at the start of iteration i
    ghost(interp, env, i)   -> Log term: the ghost history at the start of iteration i (or None)
    axioms(interp, env, i)  -> z3 Bool terms: unfolding equations of the spec functions at i
    """

    def __init__(self, closed=None, facts=None, ghost=None, axioms=None):
        self.closed = closed or (lambda it, env, i: {})
        self.facts = facts or (lambda it, env, i: [])
        self.ghost = ghost
        self.axioms = axioms or (lambda it, env, i: [])


class Interp:
    def __init__(self, ctx, policies=None, loopspecs=None, max_depth=60):
        self.ctx = ctx
        self.world = ctx.world
        self.policies = policies or {}  # "module:Qual.name" -> SummaryFn-like python callable(interp, args, kwargs)
        self.loopspecs = loopspecs or {}  # ("module:Qual.name", ordinal) -> LoopSpec
        self.depth = 0
        self.max_depth = max_depth
        self.mod_env = {}
        self.class_cache = {}
        self.call_stack = []
        self.bounded_loops = 0
        from . import models

        self.models = models
        self.native_ns = models.native_namespace(self)

    # ------------------------------------------------------------------ modules / globals
    def module_env(self, modname):
        if modname not in self.mod_env:
            e = Env(module=modname)
            self.mod_env[modname] = e
        return self.mod_env[modname]

    def get_global(self, modname, name, site=None):
        env = self.module_env(modname)
        if name in env.vars:
            return env.vars[name]
        mod = self.world.modules.get(modname)
        if mod is not None and name in mod.defs:
            d = mod.defs[name]
            if isinstance(d, tuple):
                v = self.resolve_import(modname, d)
            elif isinstance(d, ast.FunctionDef):
                v = self.make_function(d, env, modname)
            elif isinstance(d, ast.ClassDef):
                v = self.make_class(d, env, modname)
            elif isinstance(d, ast.Assign):
                # evaluate the module-level assignment lazily (once per path)
                val = self.eval(d.value, env)
                for t in d.targets:
                    self.assign(t, val, env)
                v = env.vars[name]
                # functions registered on this object by decorators (@evaluate.register_action(...)) are part of its state
                for fd in mod.tree.body:
                    if isinstance(fd, ast.FunctionDef) and fd.name not in env.vars:
                        if any(ast.unparse(dc).startswith(name + ".") for dc in fd.decorator_list):
                            self.get_global(modname, fd.name)
            elif isinstance(d, ast.AnnAssign):
                v = self.eval(d.value, env)
            else:  # pragma: no cover
                raise Unsupported(f"global {name}")
            env.vars[name] = v
            return v
        if name == "__builtins__":
            return vars(_builtins)  # in an imported module __builtins__ is the builtins dictionary
        if name in self.native_ns:
            return self.native_ns[name]
        if hasattr(_builtins, name):
            return self.models.builtin(self, name)
        raise PyRaise(NameError(f"name '{name}' is not defined"))

    def resolve_import(self, modname, d):
        if d[0] == "importfrom":
            _, module, level, name = d
            if level:
                base = modname.rsplit(".", 1)[0] if "." in modname else modname
                target = base + ("." + module if module else "")
                if target in self.world.modules:
                    if name in self.world.modules[target].defs:
                        return self.get_global(target, name)
                    sub = target + "." + name
                    if sub in self.world.modules:
                        return self.models.ModuleRef(sub)
                if target + "." + name in self.world.modules:
                    return self.models.ModuleRef(target + "." + name)
                raise Unsupported(f"import {d}")
            return self.models.import_from(self, module, name)
        else:
            _, name, asname = d
            return self.models.import_module(self, name)

    # ------------------------------------------------------------------ functions / classes
    def make_function(self, node, env, modname, owner=None, apply_decorators=True):
        a = node.args
        defaults = [self.eval(d, env) for d in a.defaults]
        kw_defaults = [None if d is None else self.eval(d, env) for d in a.kw_defaults]
        f = FuncV(node, env, modname, owner=owner, defaults=defaults, kw_defaults=kw_defaults)
        f.oid = self.ctx.new_id()
        if apply_decorators and isinstance(node, ast.FunctionDef):
            v = f
            for dec in reversed(node.decorator_list):
                v = self.apply_decorator(dec, v, env)
            return v
        return f

    def apply_decorator(self, dec, f, env):
        name = ast.unparse(dec)
        if name in ("cached_property", "property", "staticmethod", "classmethod"):
            if isinstance(f, FuncV):
                f.marks.add(name)
                return f
        if name in ("keyword_decorator", "contextmanager", "autocreate", "atexit.register"):
            if isinstance(f, FuncV):
                f.marks.add(name)
            return f
        if name.startswith("functools.wraps("):
            return f
        if name.startswith("functools.lru_cache") or name.startswith("lru_cache") or name in ("functools.cache", "cache"):
            # functools.lru_cache: results are memoised per argument tuple, looked up by hash and ==
            cache = []
            interp = self

            def cached(it_, a, k, f=f):
                key = (tuple(a), tuple(sorted(k.items())))
                interp.models._hashcheck(it_, key[0])
                for kk, vv in cache:
                    if len(kk[0]) == len(key[0]) and all(x is y or it_.decide_eq(x, y) for x, y in zip(kk[0], key[0])) and kk[1] == key[1]:
                        return vv
                r = it_.call(f, list(a), dict(k))
                cache.append((key, r))
                return r

            return SummaryFn("lru_cache:" + getattr(f, "name", "?"), cached)
        d = self.eval(dec, env)
        return self.call(d, [f], {})

    def make_class(self, node, env, modname):
        key = (modname, id(node))
        if key in self.class_cache:
            return self.class_cache[key]
        bases = [self.eval(b, env) for b in node.bases]
        bases = [getattr(_builtins, b.name) if isinstance(b, SummaryFn) and hasattr(_builtins, b.name) else b for b in bases]
        cls = ClassV(node.name, modname, node, bases, env)
        for kw in node.keywords:
            if kw.arg == "metaclass":
                cls.metaclass = self.eval(kw.value, env)
        if cls.metaclass is None:
            for b in bases:
                if isinstance(b, ClassV) and b.metaclass is not None:
                    cls.metaclass = b.metaclass
        self.class_cache[key] = cls
        cenv = Env(parent=env, module=modname)
        cenv.cls = cls
        cenv.is_class_body = True
        for st in node.body:
            if isinstance(st, ast.FunctionDef):
                fenv = Env(parent=env, module=modname)  # class scope is not visible from methods
                fenv.cls = cls
                f = self.make_function(st, fenv, modname, owner=cls)
                mname = st.name
                if mname.startswith("__") and not mname.endswith("__"):
                    mname = f"_{cls.name.lstrip('_')}{mname}"
                cls.attrs[mname] = f
                cenv.vars[st.name] = f
            elif isinstance(st, ast.Expr) and isinstance(st.value, ast.Constant):
                continue
            elif isinstance(st, ast.Pass):
                continue
            elif isinstance(st, (ast.Assign, ast.AnnAssign)):
                self.exec_stmt(st, cenv)
                for k, v in cenv.vars.items():
                    cls.attrs[k] = v
            else:
                raise Unsupported(f"class body statement {type(st).__name__} in {node.name}")
        if cls.metaclass is not None and isinstance(cls.metaclass, ClassV):
            # InternedMC.__new__ gives every class its own cache dict
            own, newf = cls.metaclass.lookup("__new__")
            if isinstance(newf, FuncV):
                if cls.metaclass.name == "InternedMC":
                    cls.attrs["_cache"] = {}
                else:
                    raise Unsupported("metaclass __new__ of " + cls.metaclass.name)
        return cls

    def bind_args(self, f, args, kwargs):
        node = f.node
        a = node.args
        env = Env(parent=f.env, module=f.module)
        env.cls = f.owner or getattr(f.env, "cls", None)
        params = list(getattr(a, "posonlyargs", [])) + list(a.args)
        nd = len(f.defaults)
        args = list(args)
        kwargs = dict(kwargs)
        for i, p in enumerate(params):
            if i < len(args):
                if p.arg in kwargs:
                    raise PyRaise(TypeError(f"{f.name}() got multiple values for argument '{p.arg}'"))
                env.vars[p.arg] = args[i]
            elif p.arg in kwargs:
                env.vars[p.arg] = kwargs.pop(p.arg)
            else:
                di = i - (len(params) - nd)
                if di >= 0:
                    env.vars[p.arg] = f.defaults[di]
                else:
                    raise PyRaise(TypeError(f"{f.name}() missing required argument '{p.arg}'"))
        extra = args[len(params):]
        if a.vararg is not None:
            env.vars[a.vararg.arg] = tuple(extra)
        elif extra:
            raise PyRaise(TypeError(f"{f.name}() takes {len(params)} positional arguments but {len(args)} were given"))
        for i, p in enumerate(a.kwonlyargs):
            if p.arg in kwargs:
                env.vars[p.arg] = kwargs.pop(p.arg)
            elif f.kw_defaults[i] is not None or a.kw_defaults[i] is not None:
                env.vars[p.arg] = f.kw_defaults[i]
            else:
                raise PyRaise(TypeError(f"{f.name}() missing required keyword-only argument '{p.arg}'"))
        if a.kwarg is not None:
            env.vars[a.kwarg.arg] = kwargs
        elif kwargs:
            raise PyRaise(TypeError(f"{f.name}() got an unexpected keyword argument '{next(iter(kwargs))}'"))
        return env

    def qualname(self, f):
        if f.owner is not None:
            return f"{f.module}:{f.owner.name}.{f.name}"
        return f"{f.module}:{f.name}"

    def call_function(self, f, args, kwargs):
        qn = self.qualname(f)
        pol = self.policies.get(qn)
        if pol is not None and not (self.call_stack and self.call_stack[-1][1] is pol):
            # summary instead of the body (modular call)
            self.call_stack.append((qn, pol))
            try:
                return pol(self, f, args, kwargs)
            finally:
                self.call_stack.pop()
        return self.call_body(f, args, kwargs)

    def call_body(self, f, args, kwargs):
        if self.depth > self.max_depth:
            raise Unsupported(f"call depth exceeded at {f.name}")
        env = self.bind_args(f, args, kwargs)
        if f.owner is not None and args:
            env.self_v = args[0]
        node = f.node
        self.depth += 1
        self.call_stack.append((self.qualname(f), None))
        self.ctx.executed.add(self.qualname(f))
        try:
            if isinstance(node, ast.Lambda):
                return self.eval(node.body, env)
            if "generator" in f.marks:
                raise Unsupported(f"generator function {f.name}")
            env.loop_ord = 0
            env.func = f
            if self._is_generator(node):
                if self._yield_value_used(node):
                    raise Unsupported(f"generator function {f.name} (its yields receive values)")
                # a generator function whose values are only iterated over (no send / throw, nothing observable interleaved with its
                # consumer) is run to its end and stands for the list of what it yields; `x = yield v` (a value sent in) is not supported
                env.yielded = []
                try:
                    self.exec_block(node.body, env)
                except _Return:
                    pass
                return list(env.yielded)
            try:
                self.exec_block(node.body, env)
            except _Return as r:
                return r.value
            return None
        finally:
            self.call_stack.pop()
            self.depth -= 1

    _gen_cache = {}

    def _yield_value_used(self, node):
        """True when some yield / yield from of the function (not of a nested one) is used for its value (x = yield v, return (yield v),
        r = yield from it): what is sent into such a generator matters, and the eager evaluation does not model it."""
        plain = set()
        todo = list(ast.iter_child_nodes(node))
        found = []
        while todo:
            n = todo.pop()
            if isinstance(n, ast.Expr) and isinstance(n.value, (ast.Yield, ast.YieldFrom)):
                plain.add(id(n.value))
            if isinstance(n, (ast.Yield, ast.YieldFrom)):
                found.append(n)
            if not isinstance(n, (ast.FunctionDef, ast.AsyncFunctionDef, ast.Lambda, ast.ClassDef)):
                todo.extend(ast.iter_child_nodes(n))
        return any(id(n) not in plain for n in found)

    def _is_generator(self, node):
        k = id(node)
        if k not in self._gen_cache:
            res = False
            todo = list(ast.iter_child_nodes(node))
            while todo:  # (the yields of nested functions and lambdas are theirs)
                n = todo.pop()
                if isinstance(n, (ast.Yield, ast.YieldFrom)):
                    res = True
                    break
                if not isinstance(n, (ast.FunctionDef, ast.AsyncFunctionDef, ast.Lambda, ast.ClassDef)):
                    todo.extend(ast.iter_child_nodes(n))
            self._gen_cache[k] = res
        return self._gen_cache[k]

    def instantiate(self, cls, args, kwargs):
        if cls.metaclass is not None and isinstance(cls.metaclass, ClassV):
            own, mcall = cls.metaclass.lookup("__call__")
            if isinstance(mcall, FuncV) and not getattr(self, "_in_meta", False):
                return self.call_function(mcall, [cls] + list(args), kwargs)
        return self.construct(cls, args, kwargs)

    def construct(self, cls, args, kwargs):
        o = Obj(cls, self.ctx.new_id())
        own, init = cls.lookup("__init__")
        if isinstance(init, FuncV):
            self.call_function(init, [o] + list(args), kwargs)
        elif own is not None and own is not object:
            self.models.native_base_init(self, o, own, args, kwargs)
        return o

    def call(self, fn, args, kwargs=None):
        kwargs = kwargs or {}
        if isinstance(fn, FuncV):
            return self.call_function(fn, args, kwargs)
        if isinstance(fn, BoundV):
            return self.call(fn.func, [fn.self_v] + list(args), kwargs)
        if isinstance(fn, ClassV):
            return self.instantiate(fn, args, kwargs)
        if isinstance(fn, SummaryFn):
            return fn.fn(self, args, kwargs)
        if isinstance(fn, Obj):
            own, m = fn.cls.lookup("__call__")
            if isinstance(m, FuncV):
                return self.call_function(m, [fn] + list(args), kwargs)
            raise PyRaise(TypeError(f"'{fn.cls.name}' object is not callable"))
        if isinstance(fn, SymObj):
            m = fn.attrs.get("__call__")
            if m is None:
                raise Unsupported(f"call of symbolic object {fn.name}")
            return self.call(m, args, kwargs)
        if isinstance(fn, Sym):
            raise Unsupported(f"call of symbolic value {fn}")
        if callable(fn):
            return self.models.call_native(self, fn, args, kwargs)
        raise PyRaise(TypeError(f"'{type(fn).__name__}' object is not callable"))

    # ------------------------------------------------------------------ statements
    def exec_block(self, stmts, env):
        for st in stmts:
            self.exec_stmt(st, env)

    def exec_stmt(self, st, env):
        m = getattr(self, "st_" + type(st).__name__, None)
        if m is None:
            raise Unsupported(f"statement {type(st).__name__}")
        return m(st, env)

    def st_Expr(self, st, env):
        self.eval(st.value, env)

    def st_Pass(self, st, env):
        pass

    def st_Assign(self, st, env):
        v = self.eval(st.value, env)
        for t in st.targets:
            self.assign(t, v, env)

    def st_AnnAssign(self, st, env):
        if st.value is not None:
            self.assign(st.target, self.eval(st.value, env), env)

    def st_AugAssign(self, st, env):
        t = st.target
        if isinstance(t, ast.Name):
            cur = self.load_name(t.id, env)
            new = self.binop(st.op, cur, self.eval(st.value, env), inplace=True)
            self.assign(t, new, env)
        elif isinstance(t, ast.Attribute):
            o = self.eval(t.value, env)
            cur = self.getattr(o, t.attr, env)
            new = self.binop(st.op, cur, self.eval(st.value, env), inplace=True)
            self.setattr(o, t.attr, new, env)
        elif isinstance(t, ast.Subscript):
            o = self.eval(t.value, env)
            k = self.eval(t.slice, env)
            cur = self.getitem(o, k)
            new = self.binop(st.op, cur, self.eval(st.value, env), inplace=True)
            self.setitem(o, k, new)
        else:
            raise Unsupported("augassign target")

    def st_Return(self, st, env):
        raise _Return(self.eval(st.value, env) if st.value is not None else None)

    def st_If(self, st, env):
        if self.truth(self.eval(st.test, env)):
            self.exec_block(st.body, env)
        else:
            self.exec_block(st.orelse, env)

    def st_Assert(self, st, env):
        if not self.truth(self.eval(st.test, env)):
            raise PyRaise(AssertionError(), cause_site=st)

    def st_Raise(self, st, env):
        if st.exc is None:
            cur = getattr(env, "handling", None)
            e = env
            while cur is None and e is not None:
                cur = getattr(e, "handling", None)
                e = e.parent
            if cur is None:
                raise PyRaise(RuntimeError("No active exception to reraise"))
            raise PyRaise(cur)
        v = self.eval(st.exc, env)
        if isinstance(v, ClassV):
            v = self.instantiate(v, [], {})
        elif isinstance(v, type) and issubclass(v, BaseException):
            v = v()
        raise PyRaise(v, cause_site=st)

    def st_Global(self, st, env):
        env.globals_decl.update(st.names)

    def st_Nonlocal(self, st, env):
        env.nonlocals.update(st.names)

    def st_Delete(self, st, env):
        for t in st.targets:
            if isinstance(t, ast.Subscript):
                o = self.eval(t.value, env)
                k = self.eval(t.slice, env)
                self.delitem(o, k)
            elif isinstance(t, ast.Name):
                e = env.lookup_env(t.id)
                if e is None:
                    raise PyRaise(NameError(t.id))
                del e.vars[t.id]
            elif isinstance(t, ast.Attribute):
                o = self.eval(t.value, env)
                if isinstance(o, Obj) and t.attr in o.fields:
                    del o.fields[t.attr]
                elif isinstance(o, SymObj) and t.attr in o.attrs:
                    del o.attrs[t.attr]
                elif isinstance(o, SymObj) and getattr(o, "closed", False):
                    raise PyRaise(AttributeError(t.attr))
                else:
                    raise Unsupported("del attribute")
            else:
                raise Unsupported("del target")

    def st_FunctionDef(self, st, env):
        env.vars[st.name] = self.make_function(st, env, env.module)

    def st_ClassDef(self, st, env):
        env.vars[st.name] = self.make_class(st, env, env.module)

    def st_Import(self, st, env):
        for a in st.names:
            env.vars[(a.asname or a.name).split(".")[0]] = self.models.import_module(self, a.name)

    def st_ImportFrom(self, st, env):
        for a in st.names:
            env.vars[a.asname or a.name] = self.resolve_import(env.module, ("importfrom", st.module, st.level, a.name))

    def st_While(self, st, env):
        n = 0
        while True:
            if not self.truth(self.eval(st.test, env)):
                self.exec_block(st.orelse, env)
                return
            n += 1
            if n > 200:
                raise Unsupported("while loop bound (200) exceeded: needs an invariant")
            try:
                self.exec_block(st.body, env)
            except _Break:
                return
            except _Continue:
                continue

    def st_Break(self, st, env):
        raise _Break()

    def st_Continue(self, st, env):
        raise _Continue()

    def st_With(self, st, env):
        if len(st.items) != 1:
            raise Unsupported("with: several items")
        item = st.items[0]
        mgr = self.eval(item.context_expr, env)
        enter = self.getattr(mgr, "__enter__", env)
        exit_ = self.getattr(mgr, "__exit__", env)
        v = self.call(enter, [], {})
        if item.optional_vars is not None:
            self.assign(item.optional_vars, v, env)
        try:
            self.exec_block(st.body, env)
        except PyRaise as e:
            r = self.call(exit_, [exc_class_of(e.value), e.value, None], {})
            if self.truth(r):
                return
            raise
        except (_Return, _Break, _Continue):
            self.call(exit_, [None, None, None], {})
            raise
        self.call(exit_, [None, None, None], {})

    def st_Try(self, st, env):
        try:
            try:
                self.exec_block(st.body, env)
            except PyRaise as e:
                for h in st.handlers:
                    if h.type is None or self.exc_matches(e.value, self.eval(h.type, env)):
                        if h.name:
                            env.vars[h.name] = e.value
                        prev = getattr(env, "handling", None)
                        env.handling = e.value
                        try:
                            self.exec_block(h.body, env)
                        finally:
                            env.handling = prev
                            if h.name:
                                env.vars.pop(h.name, None)
                        break
                else:
                    raise
            else:
                self.exec_block(st.orelse, env)
        finally:
            # finalbody runs on every exit, including PathEnd/Unsupported (harmless there)
            import sys

            et = sys.exc_info()[0]
            if et is None or not issubclass(et, (PathEnd, Unsupported)):
                self.exec_block(st.finalbody, env)

    def exc_matches(self, value, target):
        if isinstance(target, tuple):
            return any(self.exc_matches(value, t) for t in target)
        return class_is_subclass(exc_class_of(value), target)

    # loops ---------------------------------------------------------------------------------
    def st_For(self, st, env):
        it = self.eval(st.iter, env)
        if isinstance(it, SymSeq):
            return self.for_symbolic(st, env, it)
        items = self.iterate(it) if not isinstance(it, list) else _LiveList(it)
        broke = False
        for x in items:
            self.assign(st.target, x, env)
            try:
                self.exec_block(st.body, env)
            except _Break:
                broke = True
                break
            except _Continue:
                continue
        if not broke:
            self.exec_block(st.orelse, env)

    def current_function(self, env):
        e = env
        while e is not None:
            f = getattr(e, "func", None)
            if f is not None:
                return f, e
            e = e.parent
        return None, None

    def loop_ordinal(self, st, env):
        f, fe = self.current_function(env)
        if f is None:
            return None, None
        k = 0
        for n in ast.walk(f.node):
            if isinstance(n, (ast.For, ast.While, ast.ListComp, ast.GeneratorExp, ast.DictComp, ast.SetComp)):
                if n is st:
                    return self.qualname(f), k
                k += 1
        return self.qualname(f), None

    def for_symbolic(self, st, env, seq):
        ctx = self.ctx
        qn, k = self.loop_ordinal(st, env)
        spec = self.loopspecs.get((qn, k))
        if spec is None:
            raise Unsupported(f"loop #{k} of {qn} iterates a symbolic sequence and has no loop invariant")
        n = seq.n
        self._cur_loop, self._cur_carried = st, None
        # 1. invariant holds on entry
        self._check_closed(spec, env, z3.IntVal(0), f"loop{k}/init", qn)
        branch = ctx.choose(2, "loop")
        if branch == 0:
            # 2. arbitrary iteration
            i = z3.Int(ctx.fresh_name("i"))
            ctx.inputs[str(i)] = SInt(i)
            ctx.assume(z3.And(i >= 0, i < n))
            self._install_closed(spec, env, i)
            env.loop_index = getattr(env, "loop_index", {})
            env.loop_index[k] = i
            present = True
            if seq.guard is not None:
                g = seq.guard(i)  # may fork; the element exists in the real list iff the guard holds
                present = g if isinstance(g, bool) else ctx.decide(g)
            if present:
                self.assign(st.target, seq.elem(i), env)
                try:
                    self.exec_block(st.body, env)
                except _Continue:
                    pass
                except _Break:
                    return  # leaves the loop with the current state
            # 3. invariant re-established for i+1
            self._check_closed(spec, env, i + 1, f"loop{k}/step", qn)
            raise PathEnd()
        else:
            self._install_closed(spec, env, n)
            self.exec_block(st.orelse, env)

    def _carried(self, st, env):
        """The loop-carried local: the unique name assigned in the loop body that is already bound before the loop.  Lets a
        closed-form invariant talk about "the accumulator" without depending on what the code calls it ('@carried')."""
        targets = {x.id for x in ast.walk(st.target) if isinstance(x, ast.Name)}
        names = []
        for b in st.body:
            for x in ast.walk(b):
                if isinstance(x, ast.Name) and isinstance(x.ctx, ast.Store) and x.id not in targets and x.id not in names and env.lookup_env(x.id) is not None:
                    names.append(x.id)
        if not names:
            # nothing is re-bound: the accumulator is the collection the body grows in place (x.append / x.extend / x.add / x.update)
            for b in st.body:
                for x in ast.walk(b):
                    if (isinstance(x, ast.Call) and isinstance(x.func, ast.Attribute) and x.func.attr in ("append", "extend", "add", "update", "insert")
                            and isinstance(x.func.value, ast.Name) and x.func.value.id not in targets and x.func.value.id not in names
                            and env.lookup_env(x.func.value.id) is not None and isinstance(env.lookup_env(x.func.value.id).vars.get(x.func.value.id), (list, set, dict))):
                        names.append(x.func.value.id)
        if len(names) != 1:
            raise Unsupported(f"loop invariant about '@carried': {len(names)} loop-carried locals {names}")
        return names[0]

    def _closed_items(self, spec, env, i):
        out = {}
        for name, v in spec.closed(self, env, i).items():
            if name == "@carried":
                if self._cur_carried is None:  # determined on loop entry, before the body binds its own temporaries
                    self._cur_carried = self._carried(self._cur_loop, env)
                name = self._cur_carried
            out[name] = v
        return out

    def _install_closed(self, spec, env, i):
        ctx = self.ctx
        for ax in spec.axioms(self, env, i):
            ctx.assume(ax)
        for name, v in self._closed_items(spec, env, i).items():
            e = env.lookup_env(name) or env
            e.vars[name] = v
        for f in spec.facts(self, env, i):
            ctx.assume(f)
        if spec.ghost is not None:
            g = spec.ghost(self, env, i)
            if g is not None:
                ctx.log = g

    def _check_closed(self, spec, env, i, label, qn):
        ctx = self.ctx
        for ax in spec.axioms(self, env, i):
            ctx.assume(ax)
        for name, v in self._closed_items(spec, env, i).items():
            cur = self.load_name(name, env)
            ctx.prove(f"{label}/{name}", self.same_value(cur, v), kind="invariant")
        for j, f in enumerate(spec.facts(self, env, i)):
            ctx.prove(f"{label}/fact{j}", f, kind="invariant")
        if spec.ghost is not None:
            g = spec.ghost(self, env, i)
            if g is not None:
                ctx.prove(f"{label}/ghost", ctx.log == g, kind="invariant")

    def same_value(self, a, b):
        """Term stating that two engine values are the same value (identity for objects)."""
        if isinstance(a, ListTerm) or isinstance(b, ListTerm):
            return self.models.listterm_of(self, a) == self.models.listterm_of(self, b)
        if isinstance(a, (Obj, SymObj, FuncV, ClassV)) or isinstance(b, (Obj, SymObj, FuncV, ClassV)):
            return self.to_val(a) == self.to_val(b)
        return self.to_val(a) == self.to_val(b)

    def iterate(self, it):
        if isinstance(it, (list, tuple)):
            return list(it)
        if isinstance(it, (set, frozenset)):
            try:
                return sorted(it, key=repr)
            except Exception:
                return list(it)
        if isinstance(it, dict):
            return list(it.keys())
        if isinstance(it, (type({}.items()), type({}.keys()), type({}.values()))):
            return list(it)
        if isinstance(it, str):
            return list(it)
        if isinstance(it, (range, enumerate, zip, map, reversed, filter)) or hasattr(it, "__next__"):
            return list(it)
        if isinstance(it, Obj):
            own, m = it.cls.lookup("__iter__")
            if isinstance(m, FuncV):
                return self.iterate(self.call_function(m, [it], {}))
        if isinstance(it, SymSeq):
            raise Unsupported(f"iteration over symbolic sequence {it.name} outside a for statement")
        if isinstance(it, ListTerm):
            return ListTerm(it.t)  # list(x) of a list term: a copy with the same contents
        if isinstance(it, Sym):
            raise Unsupported(f"iteration over symbolic value {it}")
        if it is None:
            raise PyRaise(TypeError("'NoneType' object is not iterable"))
        try:
            return list(it)
        except TypeError as e:
            raise PyRaise(TypeError(str(e)))

    # ------------------------------------------------------------------ assignment
    def assign(self, t, v, env):
        if isinstance(t, ast.Name):
            name = t.id
            if name in env.globals_decl:
                self.module_env(env.module).vars[name] = v
            elif name in env.nonlocals:
                e = env.parent.lookup_env(name) if env.parent else None
                if e is None:
                    raise Unsupported("nonlocal without binding")
                e.vars[name] = v
            else:
                env.vars[name] = v
        elif isinstance(t, ast.Attribute):
            self.setattr(self.eval(t.value, env), t.attr, v, env)
        elif isinstance(t, ast.Subscript):
            self.setitem(self.eval(t.value, env), self.eval(t.slice, env), v)
        elif isinstance(t, (ast.Tuple, ast.List)):
            items = self.iterate(v)
            star = [i for i, e in enumerate(t.elts) if isinstance(e, ast.Starred)]
            if star:
                s = star[0]
                after = len(t.elts) - s - 1
                if len(items) < len(t.elts) - 1:
                    raise PyRaise(ValueError("not enough values to unpack"))
                for e, x in zip(t.elts[:s], items[:s]):
                    self.assign(e, x, env)
                self.assign(t.elts[s].value, list(items[s:len(items) - after]), env)
                for e, x in zip(t.elts[s + 1:], items[len(items) - after:]):
                    self.assign(e, x, env)
            else:
                if len(items) != len(t.elts):
                    raise PyRaise(ValueError(f"unpack: expected {len(t.elts)}, got {len(items)}"))
                for e, x in zip(t.elts, items):
                    self.assign(e, x, env)
        else:
            raise Unsupported(f"assignment target {type(t).__name__}")

    def load_name(self, name, env):
        if name not in env.globals_decl:
            e = env.lookup_env(name)
            if e is not None:
                v = e.vars[name]
                if v is UNDEF:
                    raise Unsupported(f"use of loop-havocked local {name}")
                return v
        return self.get_global(env.module, name)

    def mangle(self, name, env):
        if name.startswith("__") and not name.endswith("__"):
            e = env
            while e is not None:
                if e.cls is not None:
                    return f"_{e.cls.name.lstrip('_')}{name}"
                e = e.parent
        return name

    # expression evaluation lives in exprs.py (mixed in below)


from .exprs import ExprMixin  # noqa: E402

for _k, _v in ExprMixin.__dict__.items():
    if not _k.startswith("__"):
        setattr(Interp, _k, _v)
