"""Extraction: parse the real source of /repo/ptera (and selected dependency files) on every run."""
import ast
import hashlib
import os

REPO = os.environ.get("PVC_REPO", "/repo")


class ModuleInfo:
    def __init__(self, name, path, tree, source):
        self.name = name
        self.path = path
        self.tree = tree
        self.source = source
        self.defs = {}  # name -> ast node (FunctionDef / ClassDef / Assign value / Import marker)
        self.order = []
        for node in tree.body:
            if isinstance(node, (ast.FunctionDef, ast.ClassDef)):
                self.defs[node.name] = node
            elif isinstance(node, ast.Assign):
                for t in node.targets:
                    if isinstance(t, ast.Name):
                        self.defs[t.id] = node
            elif isinstance(node, ast.AnnAssign) and isinstance(node.target, ast.Name) and node.value is not None:
                self.defs[node.target.id] = node
            elif isinstance(node, ast.ImportFrom):
                for a in node.names:
                    self.defs[a.asname or a.name] = ("importfrom", node.module, node.level, a.name)
            elif isinstance(node, ast.Import):
                for a in node.names:
                    self.defs[(a.asname or a.name).split(".")[0]] = ("import", a.name, a.asname)


class World:
    """All parsed modules.  Immutable across paths."""

    def __init__(self, repo=None, extra=None):
        self.repo = repo or REPO
        self.modules = {}
        pkg = os.path.join(self.repo, "ptera")
        for fn in sorted(os.listdir(pkg)):
            if fn.endswith(".py"):
                name = "ptera" if fn == "__init__.py" else "ptera." + fn[:-3]
                self.load(name, os.path.join(pkg, fn))
        # dependency-under-contract: giving.gvn (SourceProxy) is interpreted from the INSTALLED source
        try:
            import importlib.util

            spec = importlib.util.find_spec("giving")
            if spec and spec.submodule_search_locations:
                p = os.path.join(list(spec.submodule_search_locations)[0], "gvn.py")
                if os.path.exists(p):
                    self.load("giving.gvn", p)
        except Exception:  # pragma: no cover
            pass
        try:
            spec = importlib.util.find_spec("codefind")
            if spec and spec.submodule_search_locations:
                p = os.path.join(list(spec.submodule_search_locations)[0], "registry.py")
                if os.path.exists(p):
                    self.load("codefind.registry", p)
        except Exception:  # pragma: no cover
            pass
        # the stdlib visitor classes are interpreted from their real source as well
        import ast as _ast

        self.load("pystd.ast", _ast.__file__)
        for name, path in (extra or {}).items():
            self.load(name, path)

    def load(self, name, path):
        src = open(path).read()
        tree = ast.parse(src, path)
        self.modules[name] = ModuleInfo(name, path, tree, src)

    def find(self, target):
        """target = 'ptera.tools:Range.__call__' -> (module, [ClassDef...], FunctionDef)"""
        modname, qual = target.split(":")
        mod = self.modules[modname]
        parts = qual.split(".")
        node = None
        body = mod.tree.body
        chain = []
        for p in parts:
            found = None
            for n in body:
                if isinstance(n, (ast.FunctionDef, ast.ClassDef)) and n.name == p:
                    found = n  # last definition wins, as in Python
            if found is None:
                raise KeyError(f"{target}: {p} not found")
            chain.append(found)
            body = found.body
            node = found
        return mod, chain[:-1], node

    def dep_sha(self, modname):
        return hashlib.sha256(self.modules[modname].source.encode()).hexdigest()

    def sha(self, target):
        mod, _, node = self.find(target)
        seg = ast.get_source_segment(mod.source, node) or ""
        return hashlib.sha256(seg.encode()).hexdigest()
