"""Expression evaluation (mixed into Interp)."""
import ast

import z3

from .core import PathEnd, Unsupported, PyRaise
from .sym import (Sym, Val, SInt, SBool, SStr, SVal, concretize, z3_bool, floor_mod, floor_div, eq_u,
                  truthy_u, hashable_u)
from .values import Obj, ClassV, FuncV, BoundV, SummaryFn, SymObj, SymSeq, ListTerm, Env, UNDEF


def _simple(v):
    """Concrete native value whose native ==/hash agree with Python semantics inside the engine."""
    if v is None or isinstance(v, (bool, int, str, float)):
        return True
    if isinstance(v, (tuple, frozenset)):
        return all(_simple(x) for x in v)
    return False


class ExprMixin:
    # ------------------------------------------------------------------ dispatcher
    def eval(self, node, env):
        m = getattr(self, "ev_" + type(node).__name__, None)
        if m is None:
            raise Unsupported(f"expression {type(node).__name__}")
        return m(node, env)

    def ev_Constant(self, node, env):
        return node.value

    def ev_Name(self, node, env):
        return self.load_name(node.id, env)

    def ev_Tuple(self, node, env):
        return tuple(self.eval_seq(node.elts, env))

    def ev_List(self, node, env):
        return self.eval_seq(node.elts, env)

    def ev_Set(self, node, env):
        return set(self.eval_seq(node.elts, env))

    def eval_seq(self, elts, env):
        out = []
        for e in elts:
            if isinstance(e, ast.Starred):
                out.extend(self.iterate(self.eval(e.value, env)))
            else:
                out.append(self.eval(e, env))
        return out

    def ev_Dict(self, node, env):
        d = {}
        for k, v in zip(node.keys, node.values):
            if k is None:
                src = self.eval(v, env)
                for kk in self.iterate(src):
                    self.setitem(d, kk, self.getitem(src, kk))
            else:
                self.setitem(d, self.eval(k, env), self.eval(v, env))
        return d

    def ev_Lambda(self, node, env):
        return self.make_function(node, env, env.module)

    def ev_IfExp(self, node, env):
        if self.truth(self.eval(node.test, env)):
            return self.eval(node.body, env)
        return self.eval(node.orelse, env)

    def ev_BoolOp(self, node, env):
        # Python semantics: returns the deciding operand; later operands evaluated under the guard
        last = None
        for i, e in enumerate(node.values):
            last = self.eval(e, env)
            if i == len(node.values) - 1:
                return last
            t = self.truth(last)
            if isinstance(node.op, ast.And) and not t:
                return last
            if isinstance(node.op, ast.Or) and t:
                return last
        return last

    def ev_UnaryOp(self, node, env):
        v = self.eval(node.operand, env)
        if isinstance(node.op, ast.Not):
            t = self.truth_term(v)
            if isinstance(t, bool):
                return not t
            return concretize(SBool(z3.Not(t)))
        if isinstance(node.op, ast.USub):
            if isinstance(v, Sym):
                if v.kind == "int":
                    return SInt(-v.t)
                raise Unsupported("negation of non-int symbolic")
            return -v
        raise Unsupported("unary op")

    def ev_BinOp(self, node, env):
        return self.binop(node.op, self.eval(node.left, env), self.eval(node.right, env))

    def ev_Compare(self, node, env):
        left = self.eval(node.left, env)
        result = True
        for op, rn in zip(node.ops, node.comparators):
            right = self.eval(rn, env)
            r = self.compare(op, left, right)
            if len(node.ops) == 1:
                return r
            if not self.truth(r):
                return False
            left = right
        return result

    def ev_Attribute(self, node, env):
        return self.getattr(self.eval(node.value, env), self.mangle(node.attr, env), env)

    def ev_Subscript(self, node, env):
        o = self.eval(node.value, env)
        if isinstance(node.slice, ast.Slice):
            lo = self.eval(node.slice.lower, env) if node.slice.lower else None
            hi = self.eval(node.slice.upper, env) if node.slice.upper else None
            st = self.eval(node.slice.step, env) if node.slice.step else None
            return self.getitem(o, slice(lo, hi, st))
        return self.getitem(o, self.eval(node.slice, env))

    def ev_Slice(self, node, env):
        lo = self.eval(node.lower, env) if node.lower else None
        hi = self.eval(node.upper, env) if node.upper else None
        st = self.eval(node.step, env) if node.step else None
        return slice(lo, hi, st)

    def ev_Starred(self, node, env):
        raise Unsupported("bare starred")

    def ev_JoinedStr(self, node, env):
        parts = []
        for v in node.values:
            if isinstance(v, ast.Constant):
                parts.append(v.value)
            else:
                x = self.eval(v.value, env)
                parts.append(self.format_value(x, v.conversion))
        if all(isinstance(p, str) for p in parts):
            return "".join(parts)
        t = None
        for p in parts:
            pt = z3.StringVal(p) if isinstance(p, str) else p.t
            t = pt if t is None else z3.Concat(t, pt)
        return SStr(t)

    def format_value(self, x, conversion):
        if isinstance(x, Sym):
            if x.kind == "str" and conversion in (-1, 115):
                return x
            # uninterpreted rendering of a symbolic value
            f = z3.Function("fmt_" + x.kind + str(conversion), x.t.sort(), z3.StringSort())
            return SStr(f(x.t))
        if isinstance(x, (Obj, SymObj, FuncV, ClassV, BoundV, SymSeq, ListTerm)):
            if isinstance(x, Obj):
                name = "__repr__" if conversion == 114 else "__str__"
                own, m = x.cls.lookup(name)
                if isinstance(m, FuncV):
                    return self.call_function(m, [x], {})
            return f"<{x!r}>"
        if conversion == 114:
            return repr(x)
        try:
            return str(x)
        except Exception:
            return "<?>"

    def ev_NamedExpr(self, node, env):
        v = self.eval(node.value, env)
        self.assign(node.target, v, env)
        return v

    # comprehensions ------------------------------------------------------------------
    def _comp(self, node, env, emit):
        cenv = Env(parent=env, module=env.module)
        cenv.cls = env.cls

        def rec(gi):
            if gi == len(node.generators):
                emit(cenv)
                return
            g = node.generators[gi]
            it = self.eval(g.iter, cenv if gi else env)
            if isinstance(it, SymSeq):
                raise Unsupported("comprehension over a symbolic sequence (needs a model)")
            for x in self.iterate(it):
                self.assign(g.target, x, cenv)
                ok = True
                for c in g.ifs:
                    if not self.truth(self.eval(c, cenv)):
                        ok = False
                        break
                if ok:
                    rec(gi + 1)

        rec(0)

    def ev_ListComp(self, node, env):
        g0 = node.generators[0]
        if len(node.generators) == 1:
            it = self.eval(g0.iter, env)
            if isinstance(it, SymSeq):
                return self.models.symbolic_listcomp(self, node, env, it)
        out = []
        self._comp(node, env, lambda ce: out.append(self.eval(node.elt, ce)))
        return out

    def ev_GeneratorExp(self, node, env):
        r = self.ev_ListComp(node, env)
        self._last_genexp = r  # lets next(<generator expression>, default) be told from next(<list>)
        return r

    def ev_SetComp(self, node, env):
        out = []
        self._comp(node, env, lambda ce: out.append(self.eval(node.elt, ce)))
        return self.models.make_set(self, out)

    def ev_DictComp(self, node, env):
        d = {}
        self._comp(node, env, lambda ce: self.setitem(d, self.eval(node.key, ce), self.eval(node.value, ce)))
        return d

    # calls ---------------------------------------------------------------------------------
    def ev_Call(self, node, env):
        # zero-argument super()
        if isinstance(node.func, ast.Name) and node.func.id == "super" and not node.args:
            e = env
            while e is not None and e.self_v is None:
                e = e.parent
            cls = None
            e2 = env
            while e2 is not None and cls is None:
                cls = e2.cls
                e2 = e2.parent
            if e is None or cls is None:
                raise Unsupported("super() outside a method")
            return self.models.SuperV(e.self_v, cls)
        fn = self.eval(node.func, env)
        args = []
        for a in node.args:
            if isinstance(a, ast.Starred):
                args.extend(self.iterate(self.eval(a.value, env)))
            else:
                args.append(self.eval(a, env))
        kwargs = {}
        for k in node.keywords:
            if k.arg is None:
                d = self.eval(k.value, env)
                if not isinstance(d, dict):
                    raise Unsupported("** of non-dict")
                for kk in d:
                    kwargs[kk] = d[kk]
            else:
                kwargs[k.arg] = self.eval(k.value, env)
        return self.call(fn, args, kwargs)

    def _gen_env(self, env):
        e = env
        while e is not None and not hasattr(e, "yielded"):
            e = getattr(e, "parent", None)
        if e is None:
            raise Unsupported("yield outside an eagerly evaluated generator")
        return e

    def ev_Yield(self, node, env):
        ge = self._gen_env(env)
        ge.yielded.append(None if node.value is None else self.eval(node.value, env))
        return None  # (a value sent into the generator is not modelled)

    def ev_YieldFrom(self, node, env):
        ge = self._gen_env(env)
        src = self.eval(node.value, env)
        if not isinstance(src, (list, tuple)):
            raise Unsupported("yield from something that is not a concrete sequence")
        ge.yielded.extend(src)
        return None

    # ------------------------------------------------------------------ attribute access
    def getattr(self, o, name, env=None):
        if isinstance(o, Obj):
            if name in o.fields:
                return o.fields[name]
            if name == "__class__":
                return o.cls
            own, v = o.cls.lookup(name)
            if own is not None:
                if isinstance(v, FuncV):
                    if "cached_property" in v.marks:
                        val = self.call_function(v, [o], {})
                        o.fields[name] = val
                        return val
                    if "property" in v.marks:
                        return self.call_function(v, [o], {})
                    if "staticmethod" in v.marks:
                        return v
                    return BoundV(o, v)
                if isinstance(own, ClassV):
                    if isinstance(v, SummaryFn):
                        return BoundV(o, v)
                    return v
                return self.models.native_base_attr(self, o, own, name, v)
            own, ga = o.cls.lookup("__getattr__")
            if isinstance(ga, FuncV):
                return self.call_function(ga, [o, name], {})
            if o.exc_args is not None and name == "args":
                return o.exc_args
            if getattr(o, "synthetic", False):
                dv = self._default_field(o, name)
                if dv is not UNDEF:
                    o.fields[name] = dv
                    return dv
            if getattr(o, "synthetic", False) and self._class_assigns_field(o.cls, name):
                # the object was built field-by-field by a harness: a missing field means the contract's shape is out
                # of date with the code (UNDECIDED), not that the code raises AttributeError
                raise Unsupported(f"shape object {o.cls.name} has no field '{name}' (contract shape out of date)")
            raise PyRaise_(AttributeError(f"'{o.cls.name}' object has no attribute '{name}'"))
        if isinstance(o, SymObj):
            if name in o.attrs:
                v = o.attrs[name]
                if isinstance(v, SummaryFn) and getattr(v, "is_method", False):
                    return BoundV(o, v)
                return v
            if o.cls is not None:
                own, v = o.cls.lookup(name)
                if isinstance(v, FuncV):
                    if "cached_property" in v.marks or "property" in v.marks:
                        return self.call_function(v, [o], {})
                    return BoundV(o, v)
                if own is not None:
                    return v
            if o.closed:
                raise PyRaise_(AttributeError(f"'{o.name}' object has no attribute '{name}'"))
            raise Unsupported(f"attribute {name} of symbolic object {o.name}")
        if isinstance(o, ClassV):
            if name == "__name__":
                return o.name
            own, v = o.lookup(name)
            if own is not None:
                if isinstance(v, FuncV) and "autocreate" in v.marks:
                    return BoundV(self.instantiate(o, [], {}), v)
                return v
            raise PyRaise_(AttributeError(f"type object '{o.name}' has no attribute '{name}'"))
        if isinstance(o, FuncV):
            if name in o.attrs:
                return o.attrs[name]
            if name == "__name__":
                return o.name
            if name == "__code__":
                return self.models.code_of(self, o)
            raise PyRaise_(AttributeError(f"function has no attribute '{name}'"))
        if isinstance(o, BoundV):
            if name == "__func__":
                return o.func
            if name == "__self__":
                return o.self_v
            raise PyRaise_(AttributeError(name))
        if isinstance(o, Sym):
            return self.models.sym_attr(self, o, name)
        if isinstance(o, SummaryFn):
            import builtins as _bi

            if hasattr(_bi, o.name) and isinstance(getattr(_bi, o.name), type):
                return getattr(getattr(_bi, o.name), name)
            raise PyRaise_(AttributeError(name))
        if isinstance(o, (SymSeq, ListTerm)):
            return self.models.symseq_attr(self, o, name)
        return self.models.native_getattr(self, o, name)

    def _default_field(self, o, name):
        """A field the harness did not provide but which __init__ initialises with a closed expression
        (`self.cache = {}`): use that initial value, so that adding such a field does not invalidate the shape."""
        for k in o.cls.mro:
            if not isinstance(k, ClassV):
                continue
            init = k.attrs.get("__init__")
            if not isinstance(init, FuncV):
                continue
            a = init.node.args
            local = {p.arg for p in a.posonlyargs + a.args + a.kwonlyargs} | ({a.vararg.arg} if a.vararg else set()) | ({a.kwarg.arg} if a.kwarg else set())
            for stn in ast.walk(init.node):
                if isinstance(stn, ast.Assign):
                    for t in stn.targets:
                        if isinstance(t, ast.Name):
                            local.add(t.id)
            for stn in init.node.body:
                if isinstance(stn, ast.Assign) and len(stn.targets) == 1:
                    t = stn.targets[0]
                    if isinstance(t, ast.Attribute) and isinstance(t.value, ast.Name) and t.value.id == "self" and t.attr == name:
                        if any(isinstance(n, ast.Name) and n.id in local for n in ast.walk(stn.value)):
                            return UNDEF
                        try:
                            return self.eval(stn.value, self.module_env(k.module))
                        except Exception:
                            return UNDEF
        return UNDEF

    _field_cache = {}

    def _class_assigns_field(self, cls, name):
        """Does the source of the class (or a base) contain `self.<name> = ...`?"""
        for k in cls.mro:
            if not isinstance(k, ClassV):
                continue
            key = id(k.node)
            if key not in self._field_cache:
                names = set()
                for n in ast.walk(k.node):
                    if isinstance(n, ast.Attribute) and isinstance(n.ctx, ast.Store) and isinstance(n.value, ast.Name) and n.value.id == "self":
                        names.add(n.attr)
                self._field_cache[key] = names
            if name in self._field_cache[key]:
                return True
        return False

    def setattr(self, o, name, v, env=None):
        if isinstance(o, Obj):
            if env is not None:
                name = self.mangle(name, env)
            o.fields[name] = v
            return
        if isinstance(o, FuncV):
            o.attrs[name] = v
            return
        if isinstance(o, SymObj):
            hook = o.attrs.get("__setattr_hook__")
            if hook is not None:
                return hook(self, o, name, v)
            o.attrs[name] = v
            return
        if isinstance(o, (Sym, ClassV, SymSeq)):
            raise Unsupported(f"setattr on {o!r}")
        return self.models.native_setattr(self, o, name, v)

    def hasattr(self, o, name):
        try:
            self.getattr(o, name)
            return True
        except PyRaise_ as e:
            if isinstance(e.value, AttributeError):
                return False
            raise

    # ------------------------------------------------------------------ items
    def getitem(self, o, k):
        if isinstance(o, dict):
            found, v = self.dict_find(o, k)
            if found:
                return v
            if isinstance(o, __import__("collections").defaultdict) and o.default_factory is not None:
                v = self.call(o.default_factory, [], {})
                o[k] = v
                return v
            if isinstance(o, __import__("collections").Counter):
                return 0
            raise PyRaise_(KeyError(k))
        if isinstance(o, (list, tuple, str)):
            k = concretize(k)
            if isinstance(k, Sym):
                return self.models.sym_index(self, o, k)
            try:
                return o[k]
            except IndexError as e:
                raise PyRaise_(IndexError(str(e)))
            except TypeError as e:
                raise PyRaise_(TypeError(str(e)))
        if isinstance(o, Obj):
            own, m = o.cls.lookup("__getitem__")
            if isinstance(m, FuncV):
                return self.call_function(m, [o, k], {})
            raise PyRaise_(TypeError(f"'{o.cls.name}' object is not subscriptable"))
        if isinstance(o, SymObj):
            m = o.attrs.get("__getitem__")
            if m is not None:
                return self.call(m, [k], {})
        if isinstance(o, (SymSeq, Sym)):
            return self.models.sym_getitem(self, o, k)
        if o is None:
            raise PyRaise_(TypeError("'NoneType' object is not subscriptable"))
        return self.models.native_getitem(self, o, k)

    def setitem(self, o, k, v):
        if isinstance(o, dict):
            if _simple(k) and all(_simple(x) for x in o.keys()):
                o[k] = v
                return
            for kk in list(o.keys()):
                if self.decide_eq(kk, k):
                    o[kk] = v
                    return
            o[k] = v
            return
        if isinstance(o, list):
            k = concretize(k)
            if isinstance(k, Sym):
                raise Unsupported("list store at symbolic index")
            try:
                o[k] = v
            except IndexError as e:
                raise PyRaise_(IndexError(str(e)))
            return
        if isinstance(o, Obj):
            own, m = o.cls.lookup("__setitem__")
            if isinstance(m, FuncV):
                return self.call_function(m, [o, k, v], {})
            raise PyRaise_(TypeError(f"'{o.cls.name}' object does not support item assignment"))
        if isinstance(o, SymObj):
            m = o.attrs.get("__setitem__")
            if m is not None:
                return self.call(m, [k, v], {})
        raise Unsupported(f"setitem on {type(o).__name__}")

    def delitem(self, o, k):
        if isinstance(o, dict):
            for kk in list(o.keys()):
                if (_simple(kk) and _simple(k) and kk == k) or (not (_simple(kk) and _simple(k)) and self.decide_eq(kk, k)):
                    del o[kk]
                    return
            raise PyRaise_(KeyError(k))
        if isinstance(o, list):
            del o[k]
            return
        raise Unsupported("del item")

    def dict_find(self, d, k):
        if not _simple(k):
            self.models._hashcheck(self, k)  # Python hashes the key first: unhashable keys raise TypeError
        if _simple(k) and all(_simple(x) for x in d.keys()):
            if k in d:
                return True, dict.__getitem__(d, k)
            return False, None
        for kk in list(d.keys()):
            if kk is k or self.decide_eq(kk, k):
                return True, dict.__getitem__(d, kk)
        return False, None

    def decide_eq(self, a, b):
        t = self.eq_term(a, b)
        if isinstance(t, bool):
            return t
        return self.ctx.decide(t)

    # ------------------------------------------------------------------ truth, equality, values
    def truth(self, v):
        t = self.truth_term(v)
        if isinstance(t, bool):
            return t
        return self.ctx.decide(t)

    def truth_term(self, v):
        v = concretize(v)
        if isinstance(v, Sym):
            if v.kind == "bool":
                return v.t
            if v.kind == "int":
                return v.t != 0
            if v.kind == "str":
                return z3.Length(v.t) > 0
            t = v.t
            return z3.If(Val.is_none(t), False,
                         z3.If(Val.is_bool(t), Val.bval(t),
                               z3.If(Val.is_int(t), Val.ival(t) != 0,
                                     z3.If(Val.is_str(t), z3.Length(Val.sval(t)) > 0,
                                           z3.If(Val.is_absent(t), True,
                                                 z3.If(Val.is_ref(t), True, truthy_u(t)))))))
        if isinstance(v, Obj):
            own, m = v.cls.lookup("__bool__")
            if isinstance(m, FuncV):
                return self.truth_term(self.call_function(m, [v], {}))
            own, m = v.cls.lookup("__len__")
            if isinstance(m, FuncV):
                return self.truth_term(self.compare(ast.NotEq(), self.call_function(m, [v], {}), 0))
            return True
        if isinstance(v, SymObj):
            t = v.attrs.get("__truthy__")
            if t is not None:
                return t
            return True
        if isinstance(v, SymSeq):
            if v.guard is not None:
                raise Unsupported("truth of a guarded symbolic sequence")
            return v.n > 0
        if isinstance(v, ListTerm):
            # a list is falsy iff it is empty (sound axiom on list terms)
            from .sym import log_nil
            self.ctx.assume(z3.Or(self.models.lt_nonempty(v.t), v.t == log_nil))
            return self.models.lt_nonempty(v.t)
        if isinstance(v, (FuncV, ClassV, BoundV, SummaryFn)):
            return True
        return bool(v)

    def to_val(self, v):
        """Inject an engine value into the universal sort."""
        if isinstance(v, Sym):
            if v.kind == "val":
                return v.t
            if v.kind == "int":
                return Val.int(v.t)
            if v.kind == "bool":
                return Val.bool(v.t)
            if v.kind == "str":
                return Val.str(v.t)
        if v is None:
            return Val.none
        if isinstance(v, bool):
            return Val.bool(z3.BoolVal(v))
        if isinstance(v, int):
            return Val.int(z3.IntVal(v))
        if isinstance(v, str):
            return Val.str(z3.StringVal(v))
        if isinstance(v, Obj):
            if v is self.models.absent(self):
                return Val.absent
            return Val.ref(z3.IntVal(v.oid))
        if isinstance(v, SymObj):
            return v.ident
        if isinstance(v, (FuncV,)):
            return Val.ref(z3.IntVal(v.oid))
        return Val.ref(z3.IntVal(self.models.native_id(self, v)))

    def is_term(self, a, b):
        """`a is b`"""
        if isinstance(a, Sym) or isinstance(b, Sym) or isinstance(a, SymObj) or isinstance(b, SymObj):
            if (isinstance(a, Sym) and a.kind != "val" and (b is None or isinstance(b, (Obj, SymObj, FuncV, ClassV)))):
                return False
            if (isinstance(b, Sym) and b.kind != "val" and (a is None or isinstance(a, (Obj, SymObj, FuncV, ClassV)))):
                return False
            return z3.simplify(self.to_val(a) == self.to_val(b))
        if isinstance(a, (bool, int, str)) and isinstance(b, (bool, int, str)):
            return type(a) is type(b) and a == b
        return a is b

    def eq_term(self, a, b):
        """Python ==  (term or bool)."""
        a = concretize(a)
        b = concretize(b)
        # interpreted __eq__
        for x, y in ((a, b), (b, a)):
            if isinstance(x, Obj):
                own, m = x.cls.lookup("__eq__")
                if isinstance(m, FuncV):
                    r = self.call_function(m, [x, y], {})
                    return self.truth_term(r)
        if isinstance(a, Sym) or isinstance(b, Sym) or isinstance(a, SymObj) or isinstance(b, SymObj):
            return self._sym_eq(a, b)
        if isinstance(a, (Obj, FuncV, ClassV, BoundV)) or isinstance(b, (Obj, FuncV, ClassV, BoundV)):
            if isinstance(a, BoundV) and isinstance(b, BoundV):
                return a.self_v is b.self_v and a.func is b.func
            return a is b
        if isinstance(a, (tuple, list)) and isinstance(b, (tuple, list)) and type(a) is type(b):
            if len(a) != len(b):
                return False
            ts = [True if x is y else self.eq_term(x, y) for x, y in zip(a, b)]  # containers compare `is` first
            if all(isinstance(t, bool) for t in ts):
                return all(ts)
            return z3.And(*[z3.BoolVal(t) if isinstance(t, bool) else t for t in ts])
        if isinstance(a, (set, frozenset)) and isinstance(b, (set, frozenset)):
            return self.models.set_eq(self, a, b)
        try:
            return bool(a == b)
        except Exception as e:
            raise Unsupported(f"native == failed: {e}")

    def _sym_eq(self, a, b):
        ka = a.kind if isinstance(a, Sym) else None
        kb = b.kind if isinstance(b, Sym) else None

        def native_kind(x):
            if isinstance(x, bool):
                return "bool"
            if isinstance(x, int):
                return "int"
            if isinstance(x, str):
                return "str"
            return None

        ka = ka or native_kind(a)
        kb = kb or native_kind(b)
        scal = ("int", "str", "bool")
        if ka in scal and kb in scal:
            if ka == kb or {ka, kb} == {"int", "bool"}:
                ta = self._scalar_term(a, ka)
                tb = self._scalar_term(b, kb)
                if ka != kb:
                    ta = z3.If(ta, 1, 0) if ka == "bool" else ta
                    tb = z3.If(tb, 1, 0) if kb == "bool" else tb
                return z3.simplify(ta == tb)
            return False
        if (ka in scal and b is None) or (kb in scal and a is None):
            return False
        # at least one side is a 'val' or an object
        ta = self.to_val(a)
        tb = self.to_val(b)
        return self._val_eq(ta, tb)

    def _scalar_term(self, x, k):
        if isinstance(x, Sym):
            return x.t
        if k == "int":
            return z3.IntVal(x)
        if k == "str":
            return z3.StringVal(x)
        return z3.BoolVal(x)

    def _val_eq(self, ta, tb):
        """== on two universal values.  User objects (opq) decide via eq_u; everything else is
        structural for scalars and identity for sentinels / engine references."""
        either_opq = z3.Or(Val.is_opq(ta), Val.is_opq(tb))
        num = lambda t: z3.If(Val.is_int(t), Val.ival(t), z3.If(Val.bval(t), 1, 0))
        isnum = lambda t: z3.Or(Val.is_int(t), Val.is_bool(t))
        return z3.simplify(z3.If(either_opq, eq_u(ta, tb),
                                 z3.If(z3.And(isnum(ta), isnum(tb)), num(ta) == num(tb), ta == tb)))

    def compare(self, op, a, b):
        if isinstance(op, ast.Is):
            t = self.is_term(a, b)
            return t if isinstance(t, bool) else concretize(SBool(t))
        if isinstance(op, ast.IsNot):
            t = self.is_term(a, b)
            return (not t) if isinstance(t, bool) else concretize(SBool(z3.Not(t)))
        if isinstance(op, ast.Eq):
            t = self.eq_term(a, b)
            return t if isinstance(t, bool) else concretize(SBool(t))
        if isinstance(op, ast.NotEq):
            # Python's default __ne__ inverts __eq__
            t = self.eq_term(a, b)
            return (not t) if isinstance(t, bool) else concretize(SBool(z3.Not(t)))
        if isinstance(op, ast.In):
            return self.contains(b, a)
        if isinstance(op, ast.NotIn):
            r = self.contains(b, a)
            return (not r) if isinstance(r, bool) else concretize(SBool(z3.Not(z3_bool(r))))
        a = concretize(a)
        b = concretize(b)
        if isinstance(a, Sym) or isinstance(b, Sym):
            ta = self._arith(a)
            tb = self._arith(b)
            if isinstance(op, ast.Lt):
                return concretize(SBool(ta < tb))
            if isinstance(op, ast.LtE):
                return concretize(SBool(ta <= tb))
            if isinstance(op, ast.Gt):
                return concretize(SBool(ta > tb))
            if isinstance(op, ast.GtE):
                return concretize(SBool(ta >= tb))
        try:
            if isinstance(op, ast.Lt):
                return a < b
            if isinstance(op, ast.LtE):
                return a <= b
            if isinstance(op, ast.Gt):
                return a > b
            if isinstance(op, ast.GtE):
                return a >= b
        except TypeError as e:
            raise PyRaise_(TypeError(str(e)))
        raise Unsupported("comparison")

    def _arith(self, v):
        if isinstance(v, Sym):
            if v.kind == "int":
                return v.t
            if v.kind == "bool":
                return z3.If(v.t, 1, 0)
            if v.kind == "val":
                # arithmetic on an untyped value: obligation that it is an int is the caller's shape
                raise Unsupported("arithmetic on an untyped symbolic value")
            raise Unsupported("arithmetic on " + v.kind)
        if isinstance(v, bool):
            return z3.IntVal(int(v))
        if isinstance(v, int):
            return z3.IntVal(v)
        if isinstance(v, float) and v == float("-inf"):
            raise Unsupported("-inf in symbolic arithmetic")
        raise PyRaise_(TypeError(f"unsupported operand type: {type(v).__name__}"))

    def contains(self, container, x):
        if isinstance(container, dict):
            if _simple(x) and all(_simple(k) for k in container):
                return x in container
            self.models._hashcheck(self, x)
            ts = [True if k is x else self.eq_term(k, x) for k in container]
            return self._or(ts)
        if isinstance(container, (list, tuple, set, frozenset)):
            if _simple(x) and all(_simple(k) for k in container):
                return x in container
            ts = []
            for k in container:
                it = self.is_term(k, x)
                if it is True:
                    return True
                ts.append(self.eq_term(k, x))
            return self._or(ts)
        if isinstance(container, str):
            x = concretize(x)
            if isinstance(x, Sym):
                return concretize(SBool(z3.Contains(z3.StringVal(container), x.t)))
            return x in container
        if isinstance(container, Sym) and container.kind == "str":
            xt = x.t if isinstance(x, Sym) else z3.StringVal(x)
            return concretize(SBool(z3.Contains(container.t, xt)))
        if isinstance(container, Obj):
            own, m = container.cls.lookup("__contains__")
            if isinstance(m, FuncV):
                return self.call_function(m, [container, x], {})
        if isinstance(container, SymObj):
            m = container.attrs.get("__contains__")
            if m is not None:
                return self.call(m, [x], {})
        return self.models.native_contains(self, container, x)

    def _or(self, ts):
        if any(t is True for t in ts):
            return True
        ts = [t for t in ts if t is not False]
        if not ts:
            return False
        return concretize(SBool(z3.Or(*ts)))

    def binop(self, op, a, b, inplace=False):
        a = concretize(a)
        b = concretize(b)
        if isinstance(a, ListTerm) or isinstance(b, ListTerm) or isinstance(a, SymSeq) or isinstance(b, SymSeq):
            return self.models.seq_binop(self, op, a, b)
        if isinstance(a, Sym) or isinstance(b, Sym):
            if (isinstance(a, Sym) and a.kind == "str") or (isinstance(b, Sym) and b.kind == "str"):
                if isinstance(op, ast.Add):
                    ta = a.t if isinstance(a, Sym) else z3.StringVal(a)
                    tb = b.t if isinstance(b, Sym) else z3.StringVal(b)
                    return SStr(z3.Concat(ta, tb))
                raise Unsupported("string op")
            ta = self._arith(a)
            tb = self._arith(b)
            if isinstance(op, ast.Add):
                return concretize(SInt(ta + tb))
            if isinstance(op, ast.Sub):
                return concretize(SInt(ta - tb))
            if isinstance(op, ast.Mult):
                return concretize(SInt(ta * tb))
            if isinstance(op, (ast.Mod, ast.FloorDiv)):
                if self.ctx.decide(tb == 0):
                    raise PyRaise_(ZeroDivisionError("integer modulo by zero"))
                if isinstance(op, ast.Mod):
                    return concretize(SInt(floor_mod(ta, tb)))
                return concretize(SInt(floor_div(ta, tb)))
            raise Unsupported(f"binary op {type(op).__name__} on symbolic ints")
        if isinstance(a, Obj) or isinstance(b, Obj):
            names = {ast.And: None, ast.BitAnd: ("__and__", "__rand__"), ast.BitOr: ("__or__", "__ror__"),
                     ast.Add: ("__add__", "__radd__"), ast.Sub: ("__sub__", "__rsub__")}.get(type(op))
            if names:
                if isinstance(a, Obj):
                    own, m = a.cls.lookup(names[0])
                    if isinstance(m, FuncV):
                        return self.call_function(m, [a, b], {})
                if isinstance(b, Obj):
                    own, m = b.cls.lookup(names[1])
                    if isinstance(m, FuncV):
                        return self.call_function(m, [b, a], {})
            raise PyRaise_(TypeError(f"unsupported operand type(s) for {type(op).__name__}"))
        if isinstance(a, (set, frozenset)) and isinstance(b, (set, frozenset)):
            return self.models.set_binop(self, op, a, b, inplace)
        try:
            if isinstance(op, ast.Add):
                if inplace and isinstance(a, list):
                    a.extend(self.iterate(b))
                    return a
                return a + b
            if isinstance(op, ast.Sub):
                return a - b
            if isinstance(op, ast.Mult):
                return a * b
            if isinstance(op, ast.Mod):
                return a % b
            if isinstance(op, ast.FloorDiv):
                return a // b
            if isinstance(op, ast.Div):
                return a / b
            if isinstance(op, ast.BitOr):
                return a | b
            if isinstance(op, ast.BitAnd):
                return a & b
        except ZeroDivisionError as e:
            raise PyRaise_(ZeroDivisionError(str(e)))
        except TypeError as e:
            raise PyRaise_(TypeError(str(e)))
        raise Unsupported(f"binary op {type(op).__name__}")


PyRaise_ = PyRaise
