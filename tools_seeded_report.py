#!/usr/bin/env python3
"""Maintenance script (not a check): applies every seeded change to /repo, runs the property's quick check, reverts, and
records in seeded/<id>/meta.json which obligations report it."""
import json, os, re, subprocess, sys
ROOT = "/verif"
NEEDS = {
 "C01-decompose-reuses-name": "a tuple/chained assignment whose right-hand side is a bare name that is also one of the targets bound before another target",
 "C02-augassign-rhs-not-visited": "an augmented assignment whose target is not instrumented and whose right-hand side contains a walrus / yield the selector cares about",
 "C03-proceed-drops-matched-subselector": "a chain selector with >= 2 function links where a non-root link is re-entered (recursion) under its own matching activation",
 "C04-last-intercept-short-circuit": "two overrides active on the same binding, the most recently activated one declining (ABSENT) while an earlier one supplies a value",
 "C05-push-skips-apply": "while one probe keeps the function instrumented, a probe on another variable is activated, deactivated and activated again (zero-count Counter key)",
 "C06-for-else-not-visited": "a for/else whose else clause contains a return, a yield or a nested loop, reached without break",
 "C07-proceed-drops-matched-subselector": "a focus-free selector whose non-outermost function recurses under its own matching call",
 "C09-exit-guard-skips-reset": "two instrumented generators suspended in one overlay, the one entered first finishing first, then a plain call from the driver",
 "C10-collector-skips-dotted-import": "a dotted import without alias inside the probed function (import os.path), the head name selected or read afterwards",
 "C11-ann-regex-drops-middle-tags": "a string annotation with three or more tags, selecting a tag that is neither first nor last",
 "C12-check-captures-uncaptured": "a constrained variable that has not been captured yet when the focus variable is bound (assigned after the focus in a loop body)",
 "C13-dig-bound-method": "obj.meth > v where meth is reached through a decorator that records __wrapped__ (functools.wraps)",
 "C14-assimilate-moved-under-conformer": "a function nested in a module-level function, resolved by reference after a probe cycle on the ENCLOSING function",
 "C15-as-priority": "an alias whose alias name is followed by a tag: * as x:T vs $x:T",
 "C16-should-instrument-cached-by-name": "a category-qualified selector on a name bound at two sites with different annotations, the first (in source order) not matching",
 "C17-activated-flag-set-at-exit": "a second activation attempt made while the probe is still active",
 "C18-hashvar-prefix-match": "an unknown meta-variable whose name extends a documented one (#values, #enterx)",
 "C01b-aug-binop": "an instrumented augmented assignment on an object whose in-place operator differs from the binary one (list +=), visible outside the call",
 "C02b-index-key-not-affixed": "an item store v[k] = val into a variable named in the selector (focus or context)",
 "C03b-immediate-fork-skips-empty-parent": "a sibling sub-selector outer(leaf(b)) > mid > x whose first leaf call happens inside the next chain link, after mid is entered and before x is bound",
 "C04b-overridable-value-not-reset": "an overridable probe whose pipeline filters: the override fires for one binding and declines for a later one in the same activation",
 "C05b-proceed-exit-order": "a total probe whose close handler raises while a nested-selector probe is active, followed by further calls in the same activation",
 "C06b-error-handler-exception": "an activation ending with an exception outside the Exception hierarchy (SystemExit, KeyboardInterrupt, GeneratorExit)",
 "C07b-total-init-precreates-captures": "a focus-free selector capturing a variable of the outermost function that is not bound during some call (empty loop, raise before binding)",
 "C11b-variant-cache-key-drops-category": "the same function probed twice with generic captures sharing an alias but differing in tag restriction",
 "C12b-intercept-reversed": "two conditional overrides on one variable, the later-registered one's condition false while the earlier one's holds",
 "C15b-nested-imm-incall-context": "the return-value sugar CALL as name as the last step of a > chain (g > f() as r)",
 "C16b-log-before-absent-check": "an unsupplied declared-only variable captured as a non-focus variable by a selector whose event fires after the failed declaration",
 "C18b-falsy-category": "a category that evaluates to a falsy non-tag value (x:0, x:'')",
 "C01c-wrap-factory-drops-kwdefaults": "a closure with a keyword-only default, instrumented through the tooling decorator (rebuilt function object), called without that keyword",
 "C02c-loop-targets-sorted": "a tuple loop target whose names are not in alphabetical order, one as focus and another as context",
 "C04c-children-after-retained": "an older override reaching the binding through a longer call path than a more recently activated one",
 "C06c-implicit-return-skipped-after-with": "a function ending in a with block whose last statement raises and whose context manager swallows the exception",
 "C09c-overlay-exit-removes-by-tuple-identity": "an overlay left while the current collection is one derived by a call frame (generator still suspended / interleaved completion)",
 "C10c-collector-skips-class-body": "a closure variable read only inside the body of a class nested in the probed function",
 "C12c-hasval-ignores-children": "every value condition sits in a non-outermost call of the selector",
 "C13c-receiver-matcher-lru-cache": "two distinct instances that compare equal (same hash), the second selected after the first",
 "C14c-apply-swaps-before-registry": "a method / nested function resolved by reference while a probe is active on it",
 "C17c-overlay-exit-tail-test": "two probes deactivated oldest-first, a stage attached to the older one afterwards, function still instrumented",
 "C01d-proceed-exit-swallows": "a total (focus-free / immediate=False) rule on the outermost call together with a body that raises",
 "C02d-nonlifo-exit-by-selector": "two probes given the identical (interned) selector, the one activated first deactivated while the other is still active",
 "C05d-rollback-undoes-unpushed": "a multi-selector probe whose refused selector is not the last, a later selector naming a function tooled by an earlier finished probe",
 "C06d-push-skips-apply": "a probe asking only for #exit / #endloop captures that an earlier probe pushed and popped, while another probe keeps the function instrumented",
 "C07d-probe-type-default-once": "one probe given both a focused and a focus-free selector with probe_type left at its default",
 "C09d-proceed-exit-order": "a total close function that raises when an instrumented generator finishes, the driver catching it and continuing",
 "C10d-hashvar-prefix-accepted": "an undocumented meta-variable name that extends a documented one (#values, #enter2)",
 "C11d-annotation-clobbered": "a tagged binding (parameter or annotated assignment) followed in source order by a plain re-binding of the same name",
 "C12d-range-bound-truthiness": "a bound equal to 0: every(n) / between(0, b) with a negative value, or an upper bound 0 with a value >= 0",
 "C15d-equals-merges-value-capture": "the call=value sugar on a call that already captures #value without a value (f(#value as r)=c, (f() as r)=c)",
 "C16d-tweak-late-binding": "one tweak()/tweaking() call carrying two or more selectors with different values",
 "C03d-proceed-exit-skips-reset-on-error": "an instrumented function matching a non-final link of a chain raises an Exception that is handled further up, later links are called afterwards",
 "C04d-override-none-sentinel": "override(None): the constant supplied by an overridable probe is exactly None",
 "C13d-resolver-unbinds-class-receiver": "obj.meth where obj is itself a class (method of a metaclass reached through one of its instances, classmethod)",
 "C14d-register-discard-empty-captures": "a function that is a pure path element of a call-path selector (empty capture set) resolved by reference while that probe is active",
 "C17d-deactivate-guard-derived-handle": "deactivate() called on a derived handle (probe['a'], probe.min()) of a global probe instead of the root",
 "C16e-intercept-last-result-even-absent": "two intercepting handlers match the same declared-only variable and the one registered last declines (failed value condition / ABSENT) on that call",
 "C01e-dictpile-none-treated-as-missing": "a module global that the function only reads, holds None at call time and is in the instrumented set (tooled / selector names it)",
 "C04e-should-instrument-memo-by-name": "tagged focus on a variable bound several times with different annotations, the first binding in source order not carrying the tag, selective instrumentation",
 "C10e-evaluate-catches-nameerror-only": "a local annotation whose evaluation raises something other than NameError (callable[[int], int], mod.Missing, 1/0)",
 "C11e-workingframe-skips-check-for-generic": "a variable with one tagged and one untagged binding, the untagged binding instrumented by something else (tooled / a second probe)",
 "C15e-interning-cache-capped": "more than 1024 distinct selectors compiled between two compilations of equivalent spellings",
 "C02e-unpack-fast-path-ignores-nested-targets": "a nested unpacking target (key, (lo, hi) = item) with a selector naming only nested variables",
 "C05e-untooler-releases-stack-on-zero-captures": "a function tooled both as a pure path element (empty captures) and with captures, the capture-bearing tooling removed first",
 "C06e-fits-selector-loop-hashvar-rsplit": "#loop_/#endloop_ events selected by name for a loop variable whose name contains an underscore",
 "C12e-build-caches-inherited-captures": "a constrained variable of an outer function assigned only after the first event of an inner generator whose frame outlives that event",
 "C17e-overlay-entered-before-tooling": "a multi-selector probe whose later selector is refused, the first selector's variable instrumented by another probe / tooled",
 "C03e-build-caches-parent-captures": "a chain of >= 3 functions with a sibling call first made from inside the focus function after its first binding, followed by a second binding",
 "C13e-hasval-ignores-children": "an object-bound method as a CHILD of an outer call that has no value constraint of its own (drive > a.meth > v)",
 "C07e-register-dedups-per-accumulator": "two capture elements of one selector designating the same variable of the same call (two aliases, named + generic tag capture, two sub-selectors on one function)",
 "C09e-sibling-selectors-pruned-on-entry": "sibling call patterns sharing one accumulator (driver(gen(a), leaf(!x))), one of them a generator suspended while the driver calls the other",
 "C14e-resolver-caches-reference-code": "the same reference string resolved twice with the function's probe state different between the two resolutions",
 "C01f-index-inlined-when-it-has-no-call": "a subscript store on an instrumented name whose index has an effect but contains no call (walrus, property read)",
 "C02f-capture-snapshot-aliases-lists": "raw=True events kept and read after a later binding of the same variable",
 "C03f-hasval-ignores-nested-calls": "a value / receiver condition only on an inner call of a chain whose outermost call has none",
 "C04f-hasval-ignores-nested-calls": "an override attached to a selector whose only value condition sits on an inner call",
 "C05f-nonlifo-exit-by-selector-set": "two probes sharing a (partially) identical selector, deactivated in non-LIFO order",
 "C06f-with-split-visits-inner-twice": "return / loop / yield inside a with statement with several items whose non-last item has a target",
 "C07f-autotool-rollback-untools-unpushed": "a selector refused part-way (_tooler TypeError on a non-last function) while a later function of the path is tooled by another probe",
 "C09f-plus-mutates-empty-collection": "an overlay entered while the current collection is the EMPTY collection of a call that started under no overlay (suspended generator)",
 "C10f-install-tooling-undoes-refused-twice": "a probe refused by verify followed by a valid probe on the very same function object",
 "C11f-install-tooling-undoes-refused-twice": "a tag selector refused (no binding carries the tag) followed by a valid tag selector on the same function",
 "C13f-autotool-rollback-by-walking-the-selector": "Cls.meth > v and obj.meth > v active, then a third probe whose early path element cannot be tooled is refused",
 "C14f-refstring-removes-first-locals-only": "a function (or method of a local class) nested two or more functions deep",
 "C15f-nested-imm-prepends-child": "the left side of > is a call that already has a nested-call operand and what follows > is a call",
 "C16f-override-none-sentinel": "an overridable probe supplying the constant None for a declared-only variable",
 "C17f-exit-catches-only-empty-sequence": "a stage attached earlier raises something other than 'sequence contains no elements' at completion, with later stages attached",
 "C18f-focus-reads-all-tags-default": "a selector with a second-focus mark (!!) and no first, with probe_type='immediate'",
 "C12f-vcall-keeps-last-keyword": "a predicate written in the selector string with two or more keyword arguments (every(3, start=1, end=8))",
 "C18d-expect-message-encode": "a parenthesised comma sequence where a single variable / call is required ((a,b):T, (a,b) > x)",
}
rows = []
for d in sorted(os.listdir(os.path.join(ROOT, "seeded"))):
    p = os.path.join(ROOT, "seeded", d)
    if not os.path.isdir(p) or (sys.argv[1:] and not any(d.startswith(a) for a in sys.argv[1:])):
        continue
    prop = d.split("-")[0].rstrip("bcdefg")
    subprocess.check_call(["git", "-C", "/repo", "apply", os.path.join(p, "patch.diff")])
    try:
        r = subprocess.run([os.path.join(ROOT, "check"), prop, "quick"], capture_output=True, text=True, cwd=ROOT,
                           env={**os.environ, "PVC_EVIDENCE_DIR": "/tmp/pvc_seeded_evidence", "PVC_NO_DEMOS": "1"})
    finally:
        subprocess.check_call(["git", "-C", "/repo", "checkout", "--", "."])
    viol = [re.sub(r".*replay=\S*/", "", l) for l in r.stdout.splitlines() if l.startswith("VIOLATION")]
    meta = {
        "property": prop,
        "breaks": open(os.path.join(p, "patch.diff")).read().split("\n")[0][:200],
        "needs_to_manifest": NEEDS.get(d, ""),
        "confirmed": "in a scratch worktree of /repo HEAD: full test suite 269 passed with the patch; demo exits 1 with the patch and 0 without",
        "check_run": f"git -C /repo apply seeded/{d}/patch.diff && ./check {prop} quick ; git -C /repo checkout -- .",
        "check_exit": r.returncode,
        "detected": bool(viol),
        "violations_reported": viol[:6],
        "origin": "independent sub-agent given only the property text and a scratch worktree",
    }
    json.dump(meta, open(os.path.join(p, "meta.json"), "w"), indent=1)
    rows.append((d, r.returncode, len(viol), viol[:1]))
for row in rows:
    print(row)
