#!/usr/bin/env python3
"""Maintenance script (not a check): applies every seeded change to /repo, runs the property's quick check, reverts, and
records in seeded/<id>/meta.json which obligations report it."""
import json, os, re, subprocess, sys
ROOT = "/verif"
NEEDS = {
 "C01-decompose-reuses-name": "a tuple/chained assignment whose right-hand side is a bare name that is also one of the targets bound before another target",
 "C02-augassign-rhs-not-visited": "an augmented assignment whose target is not instrumented and whose right-hand side contains a walrus / yield the selector cares about",
 "C03-proceed-drops-matched-subselector": "a chain selector with >= 2 function links where a non-root link is re-entered (recursion) under its own matching activation",
 "C04-last-intercept-short-circuit": "two overrides active on the same binding, the most recently activated one declining (ABSENT) while an earlier one supplies a value",
 "C05-push-skips-apply": "while one probe keeps the function instrumented, a probe on another variable is activated, deactivated and activated again (zero-count Counter key)",
 "C06-for-else-not-visited": "a for/else whose else clause contains a return, a yield or a nested loop, reached without break",
 "C07-proceed-drops-matched-subselector": "a focus-free selector whose non-outermost function recurses under its own matching call",
 "C09-exit-guard-skips-reset": "two instrumented generators suspended in one overlay, the one entered first finishing first, then a plain call from the driver",
 "C10-collector-skips-dotted-import": "a dotted import without alias inside the probed function (import os.path), the head name selected or read afterwards",
 "C11-ann-regex-drops-middle-tags": "a string annotation with three or more tags, selecting a tag that is neither first nor last",
 "C12-check-captures-uncaptured": "a constrained variable that has not been captured yet when the focus variable is bound (assigned after the focus in a loop body)",
 "C13-dig-bound-method": "obj.meth > v where meth is reached through a decorator that records __wrapped__ (functools.wraps)",
 "C14-assimilate-moved-under-conformer": "a function nested in a module-level function, resolved by reference after a probe cycle on the ENCLOSING function",
 "C15-as-priority": "an alias whose alias name is followed by a tag: * as x:T vs $x:T",
 "C16-should-instrument-cached-by-name": "a category-qualified selector on a name bound at two sites with different annotations, the first (in source order) not matching",
 "C17-activated-flag-set-at-exit": "a second activation attempt made while the probe is still active",
 "C18-hashvar-prefix-match": "an unknown meta-variable whose name extends a documented one (#values, #enterx)",
}
rows = []
for d in sorted(os.listdir(os.path.join(ROOT, "seeded"))):
    p = os.path.join(ROOT, "seeded", d)
    if not os.path.isdir(p):
        continue
    prop = d.split("-")[0]
    subprocess.check_call(["git", "-C", "/repo", "apply", os.path.join(p, "patch.diff")])
    try:
        r = subprocess.run([os.path.join(ROOT, "check"), prop, "quick"], capture_output=True, text=True, cwd=ROOT)
    finally:
        subprocess.check_call(["git", "-C", "/repo", "checkout", "--", "."])
    viol = [re.sub(r".*replay=\S*/", "", l) for l in r.stdout.splitlines() if l.startswith("VIOLATION")]
    meta = {
        "property": prop,
        "breaks": open(os.path.join(p, "patch.diff")).read().split("\n")[0][:200],
        "needs_to_manifest": NEEDS.get(d, ""),
        "confirmed": "in a scratch worktree of /repo HEAD: full test suite 269 passed with the patch; demo exits 1 with the patch and 0 without",
        "check_run": f"git -C /repo apply seeded/{d}/patch.diff && ./check {prop} quick ; git -C /repo checkout -- .",
        "check_exit": r.returncode,
        "detected": bool(viol),
        "violations_reported": viol[:6],
        "origin": "independent sub-agent given only the property text and a scratch worktree",
    }
    json.dump(meta, open(os.path.join(p, "meta.json"), "w"), indent=1)
    rows.append((d, r.returncode, len(viol), viol[:1]))
for row in rows:
    print(row)
