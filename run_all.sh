#!/bin/bash
# Maintenance: run every quick check on the CURRENT (unmodified) /repo tree and validate the evidence files.
cd "$(dirname "$0")"
test -z "$(git -C /repo status --porcelain)" || { echo "refusing: /repo has uncommitted changes"; exit 2; }
rc=0
for p in $(python3 -c "import json; print(' '.join(c['property_id'] for c in json.load(open('MANIFEST.json'))['checks']))"); do
  ./check $p ${1:-quick} 2>&1 | grep -E "${1:-quick}:|VIOLATION|FAULT|UNDEC" | cut -c1-160 || true
  test ${PIPESTATUS[0]} -eq 0 || rc=1
done
.venv/bin/python - <<'PY'
import json, jsonschema, glob
sch = json.load(open('/root/.vp/EVIDENCE.schema.json'))
man = {c['property_id']: c for c in json.load(open('/verif/MANIFEST.json'))['checks']}
for f in sorted(glob.glob('/verif/evidence/*.json')):
    e = json.load(open(f)); jsonschema.validate(e, sch)
    c = man[e['property_id']]
    assert e['level'] == c['level_claimed']['category'], (f, e['level'])
    if e['level'] == 'proof':
        assert e['coverage']['obligations'] == e['coverage']['discharged'] > 0, f
print("evidence valid and consistent with MANIFEST for", len(man), "checks")
PY
exit $rc
