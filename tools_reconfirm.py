#!/usr/bin/env python3
"""Maintenance script: every seeded change is re-confirmed on the CURRENT /repo HEAD in a scratch copy: the patch applies, the
repository's test suite still passes (269) and the demo exits 1 with the patch (and 0 without).  A change that no longer breaks
its property (because a later fix made it harmless) must be dropped or rebased."""
import concurrent.futures as cf, os, shutil, subprocess, sys, tempfile
ROOT = os.path.dirname(os.path.abspath(__file__))
BASE = tempfile.mkdtemp(prefix="pvc_reconfirm_base_")
subprocess.run(f"git -C /repo archive HEAD ptera tests | tar -x -C {BASE}", shell=True, check=True)


def one(d):
    p = os.path.join(ROOT, "seeded", d)
    tmp = tempfile.mkdtemp(prefix="pvc_reconfirm_")
    try:
        shutil.copytree(os.path.join(BASE, "ptera"), os.path.join(tmp, "ptera"))
        shutil.copytree(os.path.join(BASE, "tests"), os.path.join(tmp, "tests"))
        demos = [f for f in os.listdir(p) if f.startswith("demo") and f.endswith(".py")]
        env = {**os.environ, "PYTHONPATH": tmp}
        without = [subprocess.run(["/venv/bin/python", os.path.join(p, f)], capture_output=True, env=env, cwd=p, timeout=300).returncode for f in demos]
        r = subprocess.run(["patch", "-p1", "-s", "-d", tmp, "-i", os.path.join(p, "patch.diff")], capture_output=True, text=True)
        if r.returncode != 0:
            return d, "PATCH-DOES-NOT-APPLY"
        t = subprocess.run(["/venv/bin/python", "-m", "pytest", "-q", "-x", "-p", "no:cacheprovider", "tests"], cwd=tmp, capture_output=True, text=True, timeout=600)
        with_ = [subprocess.run(["/venv/bin/python", os.path.join(p, f)], capture_output=True, env=env, cwd=p, timeout=300).returncode for f in demos]
        ok = t.returncode == 0 and all(x == 0 for x in without) and all(x != 0 for x in with_) and demos
        return d, "confirmed" if ok else f"NOT-CONFIRMED tests={t.returncode} without={without} with={with_}"
    finally:
        shutil.rmtree(tmp, ignore_errors=True)


ds = sorted(x for x in os.listdir(os.path.join(ROOT, "seeded")) if os.path.isdir(os.path.join(ROOT, "seeded", x)) and (not sys.argv[1:] or any(x.startswith(a) for a in sys.argv[1:])))
with cf.ThreadPoolExecutor(6) as ex:
    for d, s in ex.map(one, ds):
        if s != "confirmed":
            print(d, s, flush=True)
print("checked", len(ds))
shutil.rmtree(BASE, ignore_errors=True)
