"""Trusted spec: the meaning of "same behaviour" for rewritten code, as a normaliser erase : AST -> AST.

Rules R1..R9 of DESIGN 3.9.  Each rule has a side condition; a side condition that cannot be established is
reported (not silently assumed) so that it becomes a failed obligation of the visitor under contract.
Sub-terms that are opaque in a schema are `Name('__E<k>')` (expression holes) and `Expr(Name('__S<k>'))`
(statement holes); `__VE<k>` / `__VS<k>` stand for visit(hole) and erase to the hole (induction hypothesis).
"""
import ast
import copy

FRAME = "__ptera_frame"
ABSENT = "__ptera_ABSENT"
GLOBALS = "__ptera_globals"
KEY = "__ptera_Key"


class Problem:
    def __init__(self, rule, what):
        self.rule = rule
        self.what = what

    def __repr__(self):
        return f"{self.rule}: {self.what}"


def is_hole(n):
    return isinstance(n, ast.Name) and n.id.startswith("__E")


def is_interact(n):
    return (isinstance(n, ast.Call) and isinstance(n.func, ast.Attribute) and n.func.attr == "interact"
            and isinstance(n.func.value, ast.Name) and n.func.value.id == FRAME and len(n.args) == 5 and not n.keywords)


def effect_free(e):
    """Conservative: constants and plain variable reads."""
    if isinstance(e, ast.Constant):
        return True
    if isinstance(e, ast.Name) and not e.id.startswith("__E") and not e.id.startswith("__VE"):
        return True
    if isinstance(e, ast.Tuple):
        return all(effect_free(x) for x in e.elts)
    if isinstance(e, ast.Slice):
        # building a slice object out of constants and variable reads
        return all(x is None or effect_free(x) for x in (e.lower, e.upper, e.step))
    return False


def dump(n):
    if isinstance(n, list):
        return "[" + ", ".join(dump(x) for x in n) + "]"
    n = _hoist_declarations(_nest_withs(strip_ctx(copy.deepcopy(n))))
    return ast.dump(n, annotate_fields=True, include_attributes=False)


def _hoist_declarations(n):
    """R12 (canonical form used by every comparison): global/nonlocal declarations hold for the whole function wherever they are
    written (Language Reference 7.12): every function is written with its declarations in front (after the docstring), sorted, and
    a `pass` where a nested one stood (other `pass` statements of a non-trivial block are dropped as well)."""
    def own_blocks(stmt):
        for field in ("body", "orelse", "finalbody", "handlers", "cases"):
            sub = getattr(stmt, field, None)
            if isinstance(sub, list):
                yield field, sub

    def strip(stmts, found, top):
        out = []
        for st in stmts:
            if isinstance(st, (ast.Global, ast.Nonlocal)):
                found.append(st)
                continue
            if isinstance(st, ast.Pass) and not top:
                continue
            if isinstance(st, (ast.FunctionDef, ast.AsyncFunctionDef)):
                canon_fn(st)
            elif not isinstance(st, ast.ClassDef):
                for field, sub in own_blocks(st):
                    if field in ("handlers", "cases"):
                        for h in sub:
                            h.body = strip(h.body, found, False) or [ast.Pass()]
                    else:
                        new = strip(sub, found, False)
                        setattr(st, field, new or ([ast.Pass()] if field == "body" else []))
            out.append(st)
        return out

    def canon_fn(fn):
        found = []
        body = strip(fn.body, found, True)
        doc = []
        if body and isinstance(body[0], ast.Expr) and isinstance(body[0].value, ast.Constant) and isinstance(body[0].value.value, str):
            doc, body = [body[0]], body[1:]
        globs = sorted({x for d in found if isinstance(d, ast.Global) for x in d.names})
        nonl = sorted({x for d in found if isinstance(d, ast.Nonlocal) for x in d.names})
        decls = ([ast.Global(names=globs)] if globs else []) + ([ast.Nonlocal(names=nonl)] if nonl else [])
        fn.body = doc + decls + body or [ast.Pass()]

    if isinstance(n, (ast.FunctionDef, ast.AsyncFunctionDef)):
        canon_fn(n)
    elif isinstance(n, ast.AST):
        for ch in ast.walk(n):
            if isinstance(ch, (ast.FunctionDef, ast.AsyncFunctionDef)):
                canon_fn(ch)
                break
    return n


def _nest_withs(n):
    """R15 (canonical form used by every comparison): `with A as a, B as b: BODY` is written `with A as a: with B as b: BODY`
    (Language Reference 8.5: a with statement with several items is equivalent to nested with statements)."""
    class T(ast.NodeTransformer):
        def visit_With(self, node):
            node = self.generic_visit(node)
            if isinstance(node, ast.With) and len(node.items) > 1:
                inner = node.body
                for item in reversed(node.items[1:]):
                    inner = [ast.With(items=[item], body=inner)]
                return ast.With(items=[node.items[0]], body=inner)
            return node

    return T().visit(n) if isinstance(n, ast.AST) else n


def _norm_targets(n):
    """R11: a list display used as an assignment target is the same as a tuple target (Language Reference 7.2)."""
    class T(ast.NodeTransformer):
        def visit_List(self, node):
            node = self.generic_visit(node)
            if isinstance(getattr(node, "ctx", None), ast.Store):
                return ast.Tuple(elts=node.elts, ctx=ast.Store())
            return node

    return T().visit(n)


def strip_ctx(n):
    n = _norm_targets(n)
    for x in ast.walk(n):
        if isinstance(x, (ast.FunctionDef, ast.ClassDef)) and "type_params" not in x.__dict__:
            x.type_params = []
        if hasattr(x, "ctx"):
            x.ctx = ast.Load()
        if isinstance(x, ast.Name) and hasattr(x, "context"):
            del x.context
    return n


class Interaction:
    """One event site read off the output (companion reader `events`)."""

    def __init__(self, name, key, ann, value, overridable, call):
        self.name, self.key, self.ann, self.value, self.overridable, self.call = name, key, ann, value, overridable, call

    def sig(self):
        return (self.name, None if self.key is None else dump(self.key), None if self.ann is None else dump(self.ann), dump(self.value), self.overridable)


def read_interact(call):
    v, k, a, val, o = call.args
    name = v.value if isinstance(v, ast.Constant) else None
    key = None if (isinstance(k, ast.Constant) and k.value is None) else k
    ann = None if (isinstance(a, ast.Constant) and a.value is None) else a
    ovr = o.value if isinstance(o, ast.Constant) else None
    return Interaction(name, key, ann, val, ovr, call)


class Eraser(ast.NodeTransformer):
    def __init__(self, free_vars=(), param_names=()):
        self.problems = []
        self.free_vars = set(free_vars)
        self.param_names = set(param_names)

    # --- expressions -------------------------------------------------------------------
    def visit_Name(self, n):
        if n.id.startswith("__VE"):
            return ast.Name(id="__E" + n.id[4:], ctx=ast.Load())
        return n

    def visit_YieldFrom(self, n):
        # R17: (yield from __ptera_yielding*(__ptera_frame, V))  |->  (yield V)
        # the helper is a generator that yields V exactly once and returns what it was sent, forwards what is thrown into it and closes when
        # it is closed (contract of proceed.yielding, bounded unit `proceed.yielding-shell`; PEP 380 for the delegation): for the generator
        # and for its consumer this is `yield V`
        v = n.value
        if (isinstance(v, ast.Call) and isinstance(v.func, ast.Name) and v.func.id.startswith("__ptera_yielding") and len(v.args) == 2 and not v.keywords
                and isinstance(v.args[0], ast.Name) and v.args[0].id == FRAME):
            return ast.Yield(value=self.visit(v.args[1]))
        # R18: (yield from __ptera_delegating*(__ptera_frame, V))  |->  (yield from V)   (same contract: the helper is PEP 380's expansion of
        # `yield from V` with each item yielded through the helper of R17)
        if (isinstance(v, ast.Call) and isinstance(v.func, ast.Name) and v.func.id.startswith("__ptera_delegating") and len(v.args) == 2 and not v.keywords
                and isinstance(v.args[0], ast.Name) and v.args[0].id == FRAME):
            return ast.YieldFrom(value=self.visit(v.args[1]))
        return self.generic_visit(n)

    def visit_Call(self, n):
        if is_interact(n):
            it = read_interact(n)
            if it.name is None or it.overridable is None:
                self.problems.append(Problem("R1", "interact call with non-constant name/overridable"))
            if it.key is not None:
                k = it.key
                ok = (isinstance(k, ast.Call) and isinstance(k.func, ast.Name) and k.func.id == KEY and len(k.args) == 2
                      and isinstance(k.args[0], ast.Constant))
                if not ok:
                    self.problems.append(Problem("R1", "unrecognised key expression"))
                elif k.args[0].value == "index" and not effect_free(k.args[1]):
                    self.problems.append(Problem("R1-side-condition", "subscript index expression is evaluated a second time (and first) inside the Key argument"))
                elif k.args[0].value == "attr" and not isinstance(k.args[1], ast.Constant):
                    self.problems.append(Problem("R1", "attribute key not constant"))
            if it.ann is not None and not effect_free(it.ann) and not (isinstance(it.ann, ast.Name) and it.ann.id.startswith("__ptera_")):
                if not (isinstance(it.ann, ast.Call) and isinstance(it.ann.func, ast.Name) and it.ann.func.id == "__ptera_get_tags"):
                    self.problems.append(Problem("R1-annotation-side-condition", "annotation expression is evaluated at run time on every execution"))
            return self.visit(it.value)
        return self.generic_visit(n)

    def visit_NamedExpr(self, n):
        n = self.generic_visit(n)
        return n

    # --- statements --------------------------------------------------------------------
    def erase_block(self, stmts):
        out = []
        for s in stmts:
            r = self.visit(s)
            if r is None:
                continue
            if isinstance(r, list):
                out.extend(r)
            else:
                out.append(r)
        out = self.merge_gensym(out)
        return out

    def visit_Expr(self, n):
        v = n.value
        if is_interact(v):
            it = read_interact(v)
            val = it.value
            # R2: standalone interaction on an effect-free value
            ok = (isinstance(val, ast.Constant) and val.value is True) or (isinstance(val, ast.Name) and (val.id in self.free_vars or val.id == "#error"))
            if ok and it.key is None:
                return None
            self.problems.append(Problem("R2", f"standalone interaction on a value that is not effect-free: {dump(val)}"))
            return None
        if isinstance(v, ast.Name) and v.id in self.free_vars:
            # R2': bare read of a closure variable (uninstrumented closure prelude); assumes the cell is bound at entry
            return None
        if isinstance(v, ast.Name) and v.id.startswith("__VS"):
            return ast.Expr(ast.Name(id="__S" + v.id[4:], ctx=ast.Load()))
        return self.generic_visit(n)

    def visit_Assign(self, n):
        n = self.generic_visit(n)
        # R5: x = x
        if len(n.targets) == 1 and isinstance(n.targets[0], ast.Name) and isinstance(n.value, ast.Name) and n.targets[0].id == n.value.id:
            return None
        # R8: g = __ptera_globals['g']
        if (len(n.targets) == 1 and isinstance(n.targets[0], ast.Name) and isinstance(n.value, ast.Subscript)
                and isinstance(n.value.value, ast.Name) and n.value.value.id == GLOBALS):
            sl = n.value.slice
            if isinstance(sl, ast.Constant) and sl.value == n.targets[0].id:
                return None
            self.problems.append(Problem("R8", "globals fetch for a different name"))
        return n

    def visit_AnnAssign(self, n):
        return self.generic_visit(n)

    def visit_Delete(self, n):
        """R14: `del t1, ..., tn` of ptera's own temporaries (names no source program can contain, never read afterwards) is
        unobservable -- except for object lifetime, which is why the transformer emits it."""
        tmps = [t for t in n.targets if isinstance(t, ast.Name) and t.id.startswith("_ptera__")]
        if tmps and len(tmps) == len(n.targets):
            return None
        if tmps:
            self.problems.append(Problem("R14", "del mixes ptera temporaries with program names"))
        return self.generic_visit(n)

    def merge_gensym(self, stmts):
        """R16 (augmented assignment to an attribute / item, see below), then
        R3: t = E; x1 = t; ...; xn = t  |->  x1 = ... = xn = E
        R4: (t0, ..., *tk, ...) = E; x0 = t0; ...; xn = tn  |->  (x0, ..., *xk, ...) = E   (temporaries bound by a real unpacking
        assignment and each used exactly once, in order: no side condition on E).
        Applied innermost-first (the last group first) so that nested tuple targets are rebuilt."""
        stmts = list(stmts)

        def is_tmp(n):
            return isinstance(n, ast.Name) and n.id.startswith("_ptera__")

        def unpack_temps(s):
            if not (isinstance(s, ast.Assign) and len(s.targets) == 1 and isinstance(s.targets[0], (ast.Tuple, ast.List))):
                return None
            out = []
            for e in s.targets[0].elts:
                if is_tmp(e):
                    out.append((e.id, False))
                elif isinstance(e, ast.Starred) and is_tmp(e.value):
                    out.append((e.value.id, True))
                else:
                    return None
            return out or None

        # R16: to = O; [ti = I;] t = to.A | to[ti]; t op= E; to.A | to[ti] = t   |->   O.A op= E | O[I] op= E
        # (Language Reference 7.2.1: an augmented assignment evaluates the target's object and index ONCE, first, then the operand,
        # performs the in-place operation on the value loaded from the target and stores the result to the same place; the group does
        # exactly that, holding the object, the index and the value in temporaries no program can name: no side condition)
        j = 0
        while j < len(stmts):
            a = stmts[j]
            if not (isinstance(a, ast.AugAssign) and is_tmp(a.target)):
                j += 1
                continue
            t = a.target.id
            ok = False
            if j >= 2 and j + 1 < len(stmts):
                ld, st_ = stmts[j - 1], stmts[j + 1]
                if (isinstance(ld, ast.Assign) and len(ld.targets) == 1 and is_tmp(ld.targets[0]) and ld.targets[0].id == t
                        and isinstance(ld.value, (ast.Attribute, ast.Subscript)) and is_tmp(ld.value.value)
                        and isinstance(st_, ast.Assign) and len(st_.targets) == 1 and isinstance(st_.value, ast.Name) and st_.value.id == t
                        and type(st_.targets[0]) is type(ld.value)
                        and dump(st_.targets[0]).replace("Store()", "Load()") == dump(ld.value).replace("Store()", "Load()")):
                    to = ld.value.value.id
                    k = j - 2
                    index = None
                    if isinstance(ld.value, ast.Subscript) and is_tmp(ld.value.slice):
                        ix = stmts[k] if k >= 0 else None
                        if isinstance(ix, ast.Assign) and len(ix.targets) == 1 and is_tmp(ix.targets[0]) and ix.targets[0].id == ld.value.slice.id:
                            index = ix.value
                            k -= 1
                        else:
                            k = -2
                    ob = stmts[k] if k >= 0 else None
                    if (isinstance(ob, ast.Assign) and len(ob.targets) == 1 and is_tmp(ob.targets[0]) and ob.targets[0].id == to
                            and isinstance(ob.value, ast.Name) and not is_tmp(ob.value)):
                        if isinstance(ld.value, ast.Attribute):
                            tgt = ast.Attribute(value=ast.Name(id=ob.value.id, ctx=ast.Load()), attr=ld.value.attr, ctx=ast.Store())
                        else:
                            tgt = ast.Subscript(value=ast.Name(id=ob.value.id, ctx=ast.Load()), slice=index if index is not None else ld.value.slice, ctx=ast.Store())
                        stmts[k: j + 2] = [ast.AugAssign(target=tgt, op=a.op, value=a.value)]
                        j = k + 1
                        ok = True
            if not ok:
                self.problems.append(Problem("R16", "augmented assignment on a temporary that is not the load / update / store group of one target"))
                j += 1
        while True:
            idx = None
            for i in range(len(stmts) - 1, -1, -1):
                s = stmts[i]
                if getattr(s, "_kept", False):
                    continue
                if unpack_temps(s) or (isinstance(s, ast.Assign) and len(s.targets) == 1 and is_tmp(s.targets[0])):
                    idx = i
                    break
            if idx is None:
                return stmts
            s = stmts[idx]
            temps = unpack_temps(s)
            if temps:
                group = stmts[idx + 1: idx + 1 + len(temps)]
                ok = len(group) == len(temps) and all(
                    isinstance(u, ast.Assign) and len(u.targets) == 1 and isinstance(u.value, ast.Name) and u.value.id == t
                    for u, (t, _) in zip(group, temps))
                if ok:
                    elts = [ast.Starred(value=u.targets[0], ctx=ast.Store()) if st else u.targets[0] for u, (_, st) in zip(group, temps)]
                    cls = type(s.targets[0])
                    stmts[idx: idx + 1 + len(temps)] = [ast.Assign(targets=[ast.Tuple(elts=elts, ctx=ast.Store())], value=s.value)]
                    continue
                self.problems.append(Problem("R4", "unpacking temporaries are not each bound to one target, in order"))
                s._kept = True
                continue
            t = s.targets[0].id
            # R13: tv = V; ti = I; x[ti] = tv  |->  x[I] = V   (value first, then index: the order of the original statement)
            if idx + 1 < len(stmts) and idx >= 1:
                pv, u = stmts[idx - 1], stmts[idx + 1]
                if (isinstance(pv, ast.Assign) and len(pv.targets) == 1 and is_tmp(pv.targets[0]) and isinstance(u, ast.Assign)
                        and len(u.targets) == 1 and isinstance(u.targets[0], ast.Subscript) and isinstance(u.targets[0].slice, ast.Name)
                        and u.targets[0].slice.id == t and isinstance(u.value, ast.Name) and u.value.id == pv.targets[0].id):
                    new_t = ast.Subscript(value=u.targets[0].value, slice=s.value, ctx=ast.Store())
                    stmts[idx - 1: idx + 2] = [ast.Assign(targets=[new_t], value=pv.value)]
                    continue
            j = idx + 1
            plain = []
            while j < len(stmts):
                u = stmts[j]
                if isinstance(u, ast.Assign) and len(u.targets) == 1 and isinstance(u.value, ast.Name) and u.value.id == t:
                    plain.append(u.targets[0])
                    j += 1
                else:
                    break
            if plain:
                stmts[idx:j] = [ast.Assign(targets=plain, value=s.value)]
            else:
                self.problems.append(Problem("R3", "gensym temporary not followed by its uses"))
                s._kept = True

    def generic_block(self, n):
        for f in ("body", "orelse", "finalbody"):
            if hasattr(n, f) and isinstance(getattr(n, f), list):
                setattr(n, f, self.erase_block(getattr(n, f)))
        return n

    def visit_For(self, n):
        n.iter = self.visit(n.iter)
        n.target = self.visit(n.target)
        n = self.generic_block(n)
        n.body = self.unwrap_try(n.body)
        return n

    def visit_While(self, n):
        n.test = self.visit(n.test)
        return self.generic_block(n)

    def visit_If(self, n):
        n.test = self.visit(n.test)
        return self.generic_block(n)

    def visit_With(self, n):
        n.items = [self.visit(i) for i in n.items]
        return self.generic_block(n)

    def visit_ExceptHandler(self, n):
        if n.type is not None:
            n.type = self.visit(n.type)
        n.body = self.erase_block(n.body)
        if not n.body:
            n.body = []
        return n

    def visit_Try(self, n):
        n.body = self.erase_block(n.body)
        n.handlers = [self.visit(h) for h in n.handlers]
        n.orelse = self.erase_block(n.orelse)
        n.finalbody = self.erase_block(n.finalbody)
        return n

    def unwrap_try(self, body):
        """R6: try: B finally: <nothing>  |->  B ;  try: B except BaseException as #error: raise  |->  B."""
        if len(body) == 1 and isinstance(body[0], ast.Try):
            t = body[0]
            hs = []
            for h in t.handlers:
                only_raise = (h.name == "#error" and isinstance(h.type, ast.Name) and h.type.id == "BaseException"
                              and len(h.body) == 1 and isinstance(h.body[0], ast.Raise) and h.body[0].exc is None)
                if not only_raise:
                    hs.append(h)
            if not hs and not t.finalbody and not t.orelse:
                return t.body
        return body

    def visit_FunctionDef(self, n):
        # default values and decorators are expressions of the ENCLOSING scope (the transformer visits them; their markers and
        # interactions are erased like anywhere else)
        n.args.defaults = [self.visit(d) for d in n.args.defaults]
        n.args.kw_defaults = [d and self.visit(d) for d in n.args.kw_defaults]
        n.decorator_list = [self.visit(d) for d in n.decorator_list]
        if getattr(self, "_in_root", False):
            return n  # the BODY of a nested definition is passed through untouched
        self._in_root = True
        body = list(n.body)
        doc = []
        if body and isinstance(body[0], ast.Expr) and isinstance(body[0].value, ast.Constant) and isinstance(body[0].value.value, str):
            doc = [body[0]]
            body = body[1:]
        # R12: the position of global/nonlocal declarations at the top level of a body is irrelevant: they are kept in front
        decls = [s for s in body if isinstance(s, (ast.Global, ast.Nonlocal))]
        body = [s for s in body if not isinstance(s, (ast.Global, ast.Nonlocal))]
        # R7: with proceed(self) as frame: B  |->  B
        if len(body) == 1 and isinstance(body[0], ast.With) and len(body[0].items) == 1:
            w = body[0]
            ce = w.items[0].context_expr
            ok = (isinstance(ce, ast.Call) and isinstance(ce.func, ast.Name) and ce.func.id.startswith("__ptera_") and len(ce.args) == 1
                  and isinstance(w.items[0].optional_vars, ast.Name) and w.items[0].optional_vars.id == FRAME)
            if ok:
                body = w.body
            else:
                self.problems.append(Problem("R7", "function body is not wrapped in `with proceed(self) as frame`"))
        inner = self.erase_block(body)
        inner = self.unwrap_try(inner)
        # R9: the docstring is duplicated inside the wrapper
        if doc and inner and dump(inner[0]) == dump(doc[0]):
            inner = inner[1:]
        inner_decls = [s for s in inner if isinstance(s, (ast.Global, ast.Nonlocal))]
        inner = [s for s in inner if not isinstance(s, (ast.Global, ast.Nonlocal))]
        n.body = doc + decls + inner_decls + inner
        self._in_root = False
        return n


def strip_trailing_return_none(fn):
    """R10: `return None` as the last statement of a function body  ~  falling off the end (Language Reference 7.6 / 8.7)."""
    fn = copy.deepcopy(fn)
    b = fn.body
    if b and isinstance(b[-1], ast.Return) and (b[-1].value is None or (isinstance(b[-1].value, ast.Constant) and b[-1].value.value is None)):
        fn.body = b[:-1] or [ast.Pass()]
    return fn


def erase(node_or_list, free_vars=(), param_names=()):
    """Returns (erased, problems)."""
    e = Eraser(free_vars, param_names)
    x = copy.deepcopy(node_or_list)
    if isinstance(x, list):
        out = e.erase_block(x)
    else:
        out = e.visit(x)
        if isinstance(x, ast.stmt) and not isinstance(x, ast.FunctionDef):
            out = e.erase_block([x] if out is None else ([out] if not isinstance(out, list) else out)) if False else out
    return out, e.problems


def events(node_or_list):
    """Ordered Interact sites of an output schema (source order = evaluation order for the statement forms used)."""
    out = []
    nodes = node_or_list if isinstance(node_or_list, list) else [node_or_list]

    class V(ast.NodeVisitor):
        def visit_Call(self, n):
            if is_interact(n):
                # arguments are evaluated before the call: inner interactions (e.g. yield inside receive) come first
                self.visit(n.args[3])
                out.append(read_interact(n))
            else:
                self.generic_visit(n)

    for n in nodes:
        V().visit(n)
    return out
