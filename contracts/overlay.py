"""Contracts for ptera/overlay.py: HandlerCollection.proceed / plus, fits_selector, proceed.__enter__/__exit__,
BaseOverlay.__enter__/__exit__; and Interactor.register / exit."""
import collections

import z3

from pvc.units import (unit, mk_obj, term_of, run, callback, calls_of, LoopSpec, Interp, PyRaise, SymObj,
                       SymSeq, SummaryFn, Obj, Sym, SInt, SBool, SStr, SVal, Val, concretize, exc_name)
from pvc.values import ListTerm
from pvc.sym import Log, log_nil, log_snoc, log_cat, ret_of
from pvc.fold import Fold
from pvc import models as M

O = "ptera.overlay"
I = "ptera.interpret"
S = "ptera.selector"

p_sel = z3.Function("p_sel", z3.IntSort(), z3.IntSort())
p_acc = z3.Function("p_acc", z3.IntSort(), z3.IntSort())
p_cm = z3.Function("p_capmap", z3.IntSort(), z3.IntSort())
p_imm = z3.Function("p_immediate", z3.IntSort(), z3.BoolSort())
p_foc = z3.Function("p_focus", z3.IntSort(), z3.BoolSort())
p_tmpl = z3.Function("p_template", z3.IntSort(), z3.BoolSort())
p_fits = z3.Function("p_fits", z3.IntSort(), z3.BoolSort())
p_cached = z3.Function("p_cached", z3.IntSort(), z3.BoolSort())
p_nkids = z3.Function("p_nkids", z3.IntSort(), z3.IntSort())
children_t = z3.Function("children_t", Val, Log)
ev_fork = z3.Function("ev_fork", Val, Val)
ev_register = z3.Function("ev_register", Val, Val, Val, Val)
PROCEED = O + ":HandlerCollection.proceed"


def _replay_file(name):
    import os
    p = os.path.join(os.path.dirname(os.path.dirname(os.path.abspath(__file__))), "replay", name)
    return lambda o: open(p).read()


def _proceed_folds():
    def forked(i):
        return z3.And(p_fits(i), z3.Or(p_foc(i), p_tmpl(i)))

    def accv(i):
        return Val.ref(p_acc(i))

    def selv(i):
        return Val.ref(p_sel(i))

    def plog_step(i, acc):
        after_fork = z3.If(forked(i), log_snoc(acc, ev_fork(accv(i))), acc)
        accp = z3.If(forked(i), ret_of(after_fork), accv(i))
        return z3.If(p_fits(i), log_snoc(after_fork, ev_register(accp, Val.ref(p_cm(i)), Val.bool(p_tmpl(i)))), acc)

    PLOG = Fold("PLOG", Log, log_nil, plog_step)

    def accp(i):
        return z3.If(forked(i), ret_of(log_snoc(PLOG.at(i), ev_fork(accv(i)))), accv(i))

    def ns_step(i, acc):
        keep = z3.If(z3.Not(p_imm(i)), log_snoc(acc, M.mk_tuple2(selv(i), accv(i))), acc)
        return z3.If(p_fits(i), log_cat(keep, M.seq_map(children_t(selv(i)), M.mk_tuple2(M.HOLE, accp(i)))), keep)

    NS = Fold("NS", Log, log_nil, ns_step)
    return PLOG, NS


def _mk_pair_sym(it, i):
    c = it.ctx
    selv = Val.ref(p_sel(i))
    kids = SymSeq("children", p_nkids(i), lambda j: SymObj("child", Val.ref(z3.IntVal(-7))))
    kids.term = children_t(selv)
    c.assume(p_nkids(i) >= 0)
    sel = SymObj("selector", selv, attrs={"immediate": SBool(p_imm(i)), "focus": SBool(p_foc(i)), "children": kids, "_index": i})

    def fork(it_, a, k):
        it_.ctx.emit(ev_fork(Val.ref(p_acc(i))))
        return SymObj("fork", ret_of(it_.ctx.log), attrs={"template": False})

    fk = SummaryFn("fork", fork)
    fk.is_method = True
    acc = SymObj("acc", Val.ref(p_acc(i)), attrs={"template": SBool(p_tmpl(i)), "fork": fk})
    return (sel, acc)


def _install_common(it, cache_checks):
    c = it.ctx

    def fits_summary(it_, f, args, kwargs):
        sel = args[1]
        i = sel.attrs["_index"]
        if it_.ctx.decide(p_fits(i)):
            return SymObj("capmap", Val.ref(p_cm(i)))
        return False

    def reg_summary(it_, f, args, kwargs):
        self_, acc, capmap = args[0], args[1], args[2]
        close = kwargs.get("close_at_exit", args[3] if len(args) > 3 else None)
        ct = it_.truth_term(close)
        it_.ctx.emit(ev_register(it_.to_val(acc), it_.to_val(capmap), Val.bool(z3.BoolVal(ct) if isinstance(ct, bool) else ct)))
        it_.ctx.__dict__.setdefault("registered", []).append((acc, capmap, close))
        return None

    it.policies[O + ":fits_selector"] = fits_summary
    it.policies[I + ":Interactor.register"] = reg_summary

    # the memo table, through its consistency invariant: it only ever holds fits_selector(fn, selector)
    def cache_get(it_, a, k):
        key = a[0]
        sel = key[1]
        i = sel.attrs["_index"]
        if it_.ctx.decide(p_cached(i)):
            if it_.ctx.decide(p_fits(i)):
                return SymObj("capmap", Val.ref(p_cm(i)))
            return False
        return None

    def cache_set(it_, a, k):
        key, v = a
        sel = key[1]
        i = sel.attrs["_index"]
        cache_checks.append((i, v))
        return None

    cache = SymObj("_selector_fit_cache", Val.ref(z3.IntVal(c.new_id())), attrs={
        "get": SummaryFn("cache.get", cache_get), "__setitem__": SummaryFn("cache.__setitem__", cache_set)})
    it.module_env(O).vars["_selector_fit_cache"] = cache


@unit("proceed", ["C03", "C07"], [PROCEED, O + ":HandlerCollection.__init__", I + ":Interactor.__init__"], replay=_replay_file("c03_proceed.py"),
      assumed=["fits_selector is used through its contract (deterministic function of (fn, selector): False or a capture map)",
               "Interactor.register is used through its contract (one ghost event per call)",
               "accumulator.fork() of an opaque accumulator returns a fresh accumulator determined by the history"])
def u_proceed(c):
    """HandlerCollection.proceed(fn) for ANY number of pending (selector, accumulator) pairs:
    next = concat_i( [(s_i,a_i)] if not s_i.immediate ) ++ ( [(child, a'_i) for child in s_i.children] if fits(fn,s_i) ),
    a'_i = a_i.fork() iff (s_i.focus or a_i.template) else a_i; one register(a'_i, capmap_i, close_at_exit=a_i.template)
    per fitting pair, in order; a fresh Interactor for fn; self unchanged; the memo only stores fits_selector results."""
    Fold.bounded = False
    it = Interp(c)
    checks = []
    _install_common(it, checks)
    n = z3.Int("n")
    c.inputs["n"] = SInt(n)
    c.assume(n >= 0)
    PLOG, NS = _proceed_folds()
    it.loopspecs = {(PROCEED, 0): LoopSpec(closed=lambda it_, env, i: {"next_selectors": ListTerm(NS.at(i))},
                                          ghost=lambda it_, env, i: PLOG.at(i),
                                          axioms=lambda it_, env, i: PLOG.axioms(i) + NS.axioms(i))}
    pairs = SymSeq("handler_pairs", n, lambda i: _mk_pair_sym(it, i))
    hc = mk_obj(it, O, "HandlerCollection", handler_pairs=pairs)
    fn = SymObj("fn", Val.ref(z3.IntVal(c.new_id())))
    st, res = run(it, it.getattr(hc, "proceed"), [fn])
    c.prove("no-raise", st == "ok")
    if st != "ok":
        return
    c.cover("return")
    itor, nxt = res
    c.prove("ensures/fresh-interactor-for-fn", isinstance(itor, Obj) and itor.cls.name == "Interactor" and itor.fields["fn"] is fn
            and itor.fields["to_close"] == [] and len(itor.fields["accumulators"]) == 0)
    c.prove("ensures/returns-HandlerCollection", isinstance(nxt, Obj) and nxt.cls.name == "HandlerCollection")
    c.prove("ensures/next-pairs==spec", it.models.listterm_of(it, nxt.fields["handler_pairs"]) == NS.at(n))
    c.prove("ensures/forks-and-registrations==spec", c.log == PLOG.at(n))
    c.prove("frame/self-unchanged", hc.fields["handler_pairs"] is pairs and len(hc.fields) == 1)
    for i, v in checks:
        ok = isinstance(v, SymObj) and v.name == "capmap" or v is False
        c.prove("aux/cache-stores-only-fits_selector-result", ok and z3.And(p_fits(i) if v is not False else z3.Not(p_fits(i)),
                                                                          it.to_val(v) == Val.ref(p_cm(i)) if v is not False else True), kind="auxiliary")


@unit("proceed-bounded", ["C03", "C07"], [PROCEED], mode="bounded", bound="2 pending pairs, <=1 child each, all flag combinations",
      fallback_for="proceed", max_paths=20000, replay=_replay_file("c03_proceed.py"))
def u_proceed_b(c):
    """Bounded stand-in for 'proceed' with concrete flags (no solver involved): compared against the same meaning computed in Python."""
    it = Interp(c)
    k = 2
    pairs = []
    meta = []
    forks = []
    registered = []
    fits_calls = []

    def fits_summary(it_, f, args, kwargs):
        sel = args[1]
        fits_calls.append(sel)
        m = sel.attrs["_meta"]
        return m["cm"] if m["fits"] else False

    def reg_summary(it_, f, args, kwargs):
        registered.append((args[1], args[2], kwargs.get("close_at_exit", args[3] if len(args) > 3 else None)))

    it.policies[O + ":fits_selector"] = fits_summary
    it.policies[I + ":Interactor.register"] = reg_summary
    for i in range(k):
        m = dict(imm=bool(c.choose(2)), fits=bool(c.choose(2)), foc=bool(c.choose(2)), tmpl=bool(c.choose(2)), nk=c.choose(2))
        m["cm"] = SymObj("capmap", Val.ref(z3.IntVal(c.new_id())))
        kids = tuple(SymObj(f"child{i}_{j}", Val.ref(z3.IntVal(c.new_id()))) for j in range(m["nk"]))
        sel = SymObj(f"sel{i}", Val.ref(z3.IntVal(c.new_id())), attrs={"immediate": m["imm"], "focus": m["foc"], "children": kids, "_meta": m})

        def fork(it_, a, kk, i=i):
            f = SymObj(f"fork{i}", Val.ref(z3.IntVal(it_.ctx.new_id())), attrs={"template": False})
            forks.append((i, f))
            return f

        fk = SummaryFn("fork", fork)
        fk.is_method = True
        acc = SymObj(f"acc{i}", Val.ref(z3.IntVal(c.new_id())), attrs={"template": m["tmpl"], "fork": fk})
        pairs.append((sel, acc))
        meta.append((m, sel, acc, kids))
    hc = mk_obj(it, O, "HandlerCollection", handler_pairs=list(pairs))
    fn = SymObj("fn", Val.ref(z3.IntVal(c.new_id())))
    st, res = run(it, it.getattr(hc, "proceed"), [fn])
    c.prove("no-raise", st == "ok")
    if st != "ok":
        return
    itor, nxt = res
    exp_pairs, exp_reg, exp_forks = [], [], []
    fi = 0
    okfork = True
    for i, (m, sel, acc, kids) in enumerate(meta):
        if not m["imm"]:
            exp_pairs.append((sel, acc))
        if m["fits"]:
            a = acc
            if m["foc"] or m["tmpl"]:
                if fi < len(forks) and forks[fi][0] == i:
                    a = forks[fi][1]
                    fi += 1
                else:
                    okfork = False
            exp_reg.append((a, m["cm"], m["tmpl"]))
            exp_pairs.extend((ch, a) for ch in kids)
    got = nxt.fields["handler_pairs"] if isinstance(nxt, Obj) else None
    same = lambda xs, ys: len(xs) == len(ys) and all(len(x) == len(y) and all(p is q for p, q in zip(x, y)) for x, y in zip(xs, ys))
    c.prove("ensures/next-pairs==spec", isinstance(got, list) and same(got, exp_pairs))
    c.prove("ensures/forks==spec", okfork and fi == len(forks))
    c.prove("ensures/registrations==spec", same(registered, exp_reg))
    c.prove("ensures/fresh-interactor-for-fn", isinstance(itor, Obj) and itor.fields["fn"] is fn and itor.fields["to_close"] == [])
    c.prove("frame/self-unchanged", same(hc.fields["handler_pairs"], pairs))


# ---------------------------------------------------------------------------------------------
# Interactor.register / exit
# ---------------------------------------------------------------------------------------------
@unit("register", ["C03", "C07", "C02"], [I + ":Interactor.register"], mode="bounded",
      bound="capture map with <=2 elements x <=2 names (concrete spine, symbolic members)")
def u_register(c):
    """accumulators'[v] = old[v] ++ [(el, acc) for el in capmap (in order), once per occurrence of v in capmap[el]];
    to_close' = old ++ [acc] iff close_at_exit and acc.close."""
    it = Interp(c)
    acc_close = c.choose(2)
    acc = SymObj("acc", Val.ref(z3.IntVal(c.new_id())), attrs={"close": SummaryFn("close", lambda *a: None) if acc_close else None})
    els = [SymObj(f"el{i}", Val.ref(z3.IntVal(c.new_id()))) for i in range(2)]
    names = ["a", "b"]
    capmap = {}
    ne = c.choose(3)
    for i in range(ne):
        capmap[els[i]] = [names[c.choose(2)] for _ in range(c.choose(3))]
    pre = SymObj("pre", Val.ref(z3.IntVal(c.new_id())))
    accs = collections.defaultdict(list)
    if c.choose(2):
        accs["a"].append((pre, pre))
    old = {k: list(v) for k, v in accs.items()}
    itor = mk_obj(it, I, "Interactor", fn=None, accumulators=accs, to_close=[])
    close = bool(c.choose(2))
    st, res = run(it, it.getattr(itor, "register"), [acc, capmap, close])
    c.prove("no-raise", st == "ok")
    exp = {k: list(v) for k, v in old.items()}
    for el, vs in capmap.items():
        for v in vs:
            exp.setdefault(v, []).append((el, acc))
    got = {k: list(v) for k, v in accs.items() if v or k in exp}
    same = set(got) == set(exp) and all(len(got[k]) == len(exp[k]) and all(x[0] is y[0] and x[1] is y[1] for x, y in zip(got[k], exp[k])) for k in exp)
    c.prove("ensures/accumulators", same)
    c.prove("ensures/to_close", itor.fields["to_close"] == ([acc] if (close and acc_close) else []))


ev_close = z3.Function("ev_close", Val, Val)
x_acc = z3.Function("x_acc", z3.IntSort(), z3.IntSort())


@unit("Interactor.exit", ["C07"], [I + ":Interactor.exit"])
def u_exit(c):
    """exit() calls acc.close() exactly once per element of to_close, in order (any length)."""
    it = Interp(c)
    n = z3.Int("n")
    c.inputs["n"] = SInt(n)
    c.assume(n >= 0)

    def elem(i):
        def close(it_, a, k):
            it_.ctx.emit(ev_close(Val.ref(x_acc(i))))

        s = SummaryFn("close", close)
        s.is_method = True
        return SymObj("acc", Val.ref(x_acc(i)), attrs={"close": s})

    CL = Fold("CL", Log, log_nil, lambda i, acc: log_snoc(acc, ev_close(Val.ref(x_acc(i)))))
    it.loopspecs = {(I + ":Interactor.exit", 0): LoopSpec(ghost=lambda it_, env, i: CL.at(i), axioms=lambda it_, env, i: CL.axioms(i))}
    itor = mk_obj(it, I, "Interactor", fn=None, accumulators={}, to_close=SymSeq("to_close", n, elem))
    st, res = run(it, it.getattr(itor, "exit"), [])
    c.prove("no-raise", st == "ok")
    c.prove("ensures/close-once-each-in-order", c.log == CL.at(n))
