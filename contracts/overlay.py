"""Contracts for ptera/overlay.py: HandlerCollection.proceed / plus, fits_selector, proceed.__enter__/__exit__,
BaseOverlay.__enter__/__exit__; and Interactor.register / exit."""
import collections

import z3

from pvc.units import (unit, mk_obj, term_of, run, callback, calls_of, LoopSpec, Interp, PyRaise, SymObj,
                       SymSeq, SummaryFn, Obj, Sym, SInt, SBool, SStr, SVal, Val, concretize, exc_name)
from pvc.values import ListTerm
from pvc.sym import Log, log_nil, log_snoc, log_cat, ret_of
from pvc.fold import Fold
from pvc.core import PathEnd
from pvc import models as M

O = "ptera.overlay"
I = "ptera.interpret"
S = "ptera.selector"

p_sel = z3.Function("p_sel", z3.IntSort(), z3.IntSort())
p_acc = z3.Function("p_acc", z3.IntSort(), z3.IntSort())
p_cm = z3.Function("p_capmap", z3.IntSort(), z3.IntSort())
p_imm = z3.Function("p_immediate", z3.IntSort(), z3.BoolSort())
p_foc = z3.Function("p_focus", z3.IntSort(), z3.BoolSort())
p_tmpl = z3.Function("p_template", z3.IntSort(), z3.BoolSort())
p_fits = z3.Function("p_fits", z3.IntSort(), z3.BoolSort())
p_cached = z3.Function("p_cached", z3.IntSort(), z3.BoolSort())
p_nkids = z3.Function("p_nkids", z3.IntSort(), z3.IntSort())
p_isimm = z3.Function("p_accumulator_is_immediate", z3.IntSort(), z3.BoolSort())


# what a function object says about where it was defined: NOT an identity (closures of one factory, methods of factory-made classes
# and functions exec'd again at module level share all of it)
_FN_NAMES = {"__module__": "usermod", "__qualname__": "make.<locals>.W.run", "__name__": "run"}


def _acc_isinstance(is_imm):
    """The pending accumulator is an Immediate or a Total one (any of the two, decided when the code asks): the contract of proceed
    does not depend on which -- every call of a focused function gets a fork of its own, whatever the accumulator records."""
    def f(it_, v, cls):
        nm = getattr(cls, "name", None)
        if nm == "Immediate":
            return is_imm(it_)
        if nm == "Total":
            return not is_imm(it_)
        return nm == "BaseAccumulator" or cls is object
    return f
children_t = z3.Function("children_t", Val, Log)
ev_fork = z3.Function("ev_fork", Val, Val)
ev_register = z3.Function("ev_register", Val, Val, Val, Val)
PROCEED = O + ":HandlerCollection.proceed"


def _replay_file(name):
    import os
    p = os.path.join(os.path.dirname(os.path.dirname(os.path.abspath(__file__))), "replay", name)
    return lambda o: open(p).read()


def _proceed_folds():
    def forked(i):
        return z3.And(p_fits(i), z3.Or(p_foc(i), p_tmpl(i)))

    def accv(i):
        return Val.ref(p_acc(i))

    def selv(i):
        return Val.ref(p_sel(i))

    def plog_step(i, acc):
        after_fork = z3.If(forked(i), log_snoc(acc, ev_fork(accv(i))), acc)
        accp = z3.If(forked(i), ret_of(after_fork), accv(i))
        return z3.If(p_fits(i), log_snoc(after_fork, ev_register(accp, Val.ref(p_cm(i)), Val.bool(p_tmpl(i)))), acc)

    PLOG = Fold("PLOG", Log, log_nil, plog_step)

    def accp(i):
        return z3.If(forked(i), ret_of(log_snoc(PLOG.at(i), ev_fork(accv(i)))), accv(i))

    def ns_step(i, acc):
        keep = z3.If(z3.Not(p_imm(i)), log_snoc(acc, M.mk_tuple2(selv(i), accv(i))), acc)
        return z3.If(p_fits(i), log_cat(keep, M.seq_map(children_t(selv(i)), M.mk_tuple2(M.HOLE, accp(i)))), keep)

    NS = Fold("NS", Log, log_nil, ns_step)
    return PLOG, NS


def _mk_pair_sym(it, i):
    c = it.ctx
    selv = Val.ref(p_sel(i))
    kids = SymSeq("children", p_nkids(i), lambda j: SymObj("child", Val.ref(z3.IntVal(-7))))
    kids.term = children_t(selv)
    c.assume(p_nkids(i) >= 0)
    sel = SymObj("selector", selv, attrs={"immediate": SBool(p_imm(i)), "focus": SBool(p_foc(i)), "children": kids, "_index": i})

    def fork(it_, a, k):
        it_.ctx.emit(ev_fork(Val.ref(p_acc(i))))
        return SymObj("fork", ret_of(it_.ctx.log), attrs={"template": False})

    fk = SummaryFn("fork", fork)
    fk.is_method = True
    acc = SymObj("acc", Val.ref(p_acc(i)), attrs={"template": SBool(p_tmpl(i)), "fork": fk,
                                                   "__isinstance__": _acc_isinstance(lambda it_: it_.ctx.decide(p_isimm(i)))})
    return (sel, acc)


def _install_common(it, cache_checks):
    c = it.ctx

    def fits_summary(it_, f, args, kwargs):
        sel = args[1]
        i = sel.attrs["_index"]
        if it_.ctx.decide(p_fits(i)):
            return SymObj("capmap", Val.ref(p_cm(i)))
        return False

    def reg_summary(it_, f, args, kwargs):
        self_, acc, capmap = args[0], args[1], args[2]
        close = kwargs.get("close_at_exit", args[3] if len(args) > 3 else None)
        ct = it_.truth_term(close)
        it_.ctx.emit(ev_register(it_.to_val(acc), it_.to_val(capmap), Val.bool(z3.BoolVal(ct) if isinstance(ct, bool) else ct)))
        it_.ctx.__dict__.setdefault("registered", []).append((acc, capmap, close))
        return None

    it.policies[O + ":fits_selector"] = fits_summary
    it.policies[I + ":Interactor.register"] = reg_summary

    # the memo table, through its consistency invariant: it only ever holds fits_selector(fn, selector)
    def _key_parts(it_, key):
        # the memo answers for THIS function object and THIS selector object: fits_selector decides by the identity of the function, so
        # a key that two functions can share (a name, a qualified name, a code location) hands one function's answer to the other
        parts = list(key) if isinstance(key, (tuple, list)) else [key]
        sels = [x for x in parts if isinstance(x, SymObj) and "_index" in x.attrs]
        fns = [x for x in parts if isinstance(x, SymObj) and x.name == "fn"]
        it_.ctx.prove("aux/memo-keyed-by-the-function-object-and-the-selector", len(sels) == 1 and len(fns) == 1 and len(parts) == 2,
                      note=f"key {parts!r}")
        if len(sels) != 1:
            raise PathEnd()
        return sels[0]

    def cache_get(it_, a, k):
        key = a[0]
        sel = _key_parts(it_, key)
        i = sel.attrs["_index"]
        if it_.ctx.decide(p_cached(i)):
            if it_.ctx.decide(p_fits(i)):
                return SymObj("capmap", Val.ref(p_cm(i)))
            return False
        return None

    def cache_set(it_, a, k):
        key, v = a
        sel = _key_parts(it_, key)
        fns = [x for x in (key if isinstance(key, tuple) else ()) if isinstance(x, SymObj) and x.name == "fn"]
        it_.ctx.prove("aux/answer-for-a-function-that-is-not-instrumented-is-not-memoised", bool(fns) and fns[0].attrs.get("__ptera_info__", 0) is not None)
        i = sel.attrs["_index"]
        cache_checks.append((i, v))
        return None

    cache = SymObj("_selector_fit_cache", Val.ref(z3.IntVal(c.new_id())), attrs={
        "get": SummaryFn("cache.get", cache_get), "__setitem__": SummaryFn("cache.__setitem__", cache_set)})
    it.module_env(O).vars["_selector_fit_cache"] = cache


@unit("proceed", ["C03", "C07", "C04", "C09", "C02", "C12", "C06", "C13", "C05", "C11", "C16"], [PROCEED, O + ":HandlerCollection.__init__", I + ":Interactor.__init__"], replay=_replay_file("c03_proceed.py"),
      assumed=["fits_selector is used through its contract (deterministic function of (fn, selector): False or a capture map)",
               "Interactor.register is used through its contract (one ghost event per call)",
               "accumulator.fork() of an opaque accumulator returns a fresh accumulator determined by the history"])
def u_proceed(c):
    """HandlerCollection.proceed(fn) for ANY number of pending (selector, accumulator) pairs:
    next = concat_i( [(s_i,a_i)] if not s_i.immediate ) ++ ( [(child, a'_i) for child in s_i.children] if fits(fn,s_i) ),
    a'_i = a_i.fork() iff (s_i.focus or a_i.template) else a_i; one register(a'_i, capmap_i, close_at_exit=a_i.template)
    per fitting pair, in order; a fresh Interactor for fn; self unchanged; the memo only stores fits_selector results."""
    Fold.bounded = False
    it = Interp(c)
    checks = []
    _install_common(it, checks)
    n = z3.Int("n")
    c.inputs["n"] = SInt(n)
    c.assume(n >= 0)
    PLOG, NS = _proceed_folds()
    it.loopspecs = {(PROCEED, 0): LoopSpec(closed=lambda it_, env, i: {"@carried": ListTerm(NS.at(i))},
                                          ghost=lambda it_, env, i: PLOG.at(i),
                                          axioms=lambda it_, env, i: PLOG.axioms(i) + NS.axioms(i))}
    pairs = SymSeq("handler_pairs", n, lambda i: _mk_pair_sym(it, i))
    hc = mk_obj(it, O, "HandlerCollection", handler_pairs=pairs)
    # the function may not be instrumented any more (an activation that began when it was, e.g. a generator still running): then nothing
    # fits, and that answer only holds for this activation -- it is not memoised
    tooled_now = bool(c.choose(2, "function-still-instrumented"))
    fn = SymObj("fn", Val.ref(z3.IntVal(c.new_id())), attrs=dict(_FN_NAMES, __ptera_info__={} if tooled_now else None), closed=True)
    if not tooled_now:
        # (what the memo already holds was computed while the function was instrumented and still stands; everything else does not fit)
        c.assume(z3.ForAll([z3.Int("ii")], z3.Implies(z3.Not(p_cached(z3.Int("ii"))), z3.Not(p_fits(z3.Int("ii"))))))
    st, res = run(it, it.getattr(hc, "proceed"), [fn])
    c.prove("no-raise", st == "ok")
    if st != "ok":
        return
    c.cover("return")
    itor, nxt = res
    c.prove("ensures/fresh-interactor-for-fn", isinstance(itor, Obj) and itor.cls.name == "Interactor" and itor.fields["fn"] is fn
            and itor.fields["to_close"] == [] and len(itor.fields["accumulators"]) == 0)
    c.prove("ensures/returns-HandlerCollection", isinstance(nxt, Obj) and nxt.cls.name == "HandlerCollection")
    c.prove("ensures/next-pairs==spec", it.models.listterm_of(it, nxt.fields["handler_pairs"]) == NS.at(n))
    c.prove("ensures/forks-and-registrations==spec", c.log == PLOG.at(n))
    c.prove("frame/self-unchanged", hc.fields["handler_pairs"] is pairs and len(hc.fields) == 1)
    for i, v in checks:
        ok = isinstance(v, SymObj) and v.name == "capmap" or v is False
        c.prove("aux/cache-stores-only-fits_selector-result", ok and z3.And(p_fits(i) if v is not False else z3.Not(p_fits(i)),
                                                                          it.to_val(v) == Val.ref(p_cm(i)) if v is not False else True), kind="auxiliary")


@unit("proceed.interactor-per-activation", ["C09", "C05", "C03", "C07", "C02", "C06"], [PROCEED, I + ":Interactor.__init__"])
def u_proceed_interactor_per_activation(c):
    """Every activation gets an interactor of its own -- also when no selector is pending or none fits: the interactor is where the
    activation keeps what belongs to it alone (the accumulators registered for it, and the collections to go back to and to re-install
    when a generator is suspended and resumed); two live activations of one function (recursion, a generator advancing another one)
    must not share it."""
    it = Interp(c)
    checks = []
    _install_common(it, checks)
    k = c.choose(2, "pending")  # 0 nothing pending, 1 one pair that does not fit (a pair that fits: units proceed / proceed-bounded)
    pairs = []
    if k:
        c.assume(z3.Not(p_fits(z3.IntVal(0))))
        c.assume(z3.Not(p_cached(z3.IntVal(0))))
        pairs = [_mk_pair_sym(it, z3.IntVal(0))]
        pairs[0][0].attrs["_index"] = z3.IntVal(0)
    hc = mk_obj(it, O, "HandlerCollection", handler_pairs=list(pairs))
    fn = SymObj("fn", Val.ref(z3.IntVal(c.new_id())), attrs=dict(_FN_NAMES, __ptera_info__={}), closed=True)
    st1, r1 = run(it, it.getattr(hc, "proceed"), [fn])
    st2, r2 = run(it, it.getattr(hc, "proceed"), [fn])
    c.prove("no-raise", st1 == "ok" and st2 == "ok")
    if st1 != "ok" or st2 != "ok":
        return
    c.prove("two-activations-of-one-function-have-two-interactors", isinstance(r1[0], Obj) and isinstance(r2[0], Obj) and r1[0] is not r2[0]
            and r1[0].fields["fn"] is fn and r2[0].fields["fn"] is fn)
    c.prove("and-two-collections", r1[1] is not r2[1])


@unit("proceed-bounded", ["C03", "C07", "C04", "C09", "C02", "C12", "C06", "C13", "C05", "C11", "C16"], [PROCEED], mode="bounded", bound="2 pending pairs (own accumulators, or siblings sharing one), <=1 child each, all flag combinations",
      fallback_for="proceed", max_paths=20000, replay=_replay_file("c03_proceed.py"))
def u_proceed_b(c):
    """Bounded stand-in for 'proceed' with concrete flags (no solver involved): compared against the same meaning computed in Python."""
    it = Interp(c)
    k = 2
    pairs = []
    meta = []
    forks = []
    registered = []
    fits_calls = []

    def fits_summary(it_, f, args, kwargs):
        sel = args[1]
        fits_calls.append(sel)
        m = sel.attrs["_meta"]
        return m["cm"] if m["fits"] else False

    def reg_summary(it_, f, args, kwargs):
        registered.append((args[1], args[2], kwargs.get("close_at_exit", args[3] if len(args) > 3 else None)))

    it.policies[O + ":fits_selector"] = fits_summary
    it.policies[I + ":Interactor.register"] = reg_summary
    for i in range(k):
        m = dict(imm=bool(c.choose(2)), fits=bool(c.choose(2)), foc=bool(c.choose(2)), tmpl=bool(c.choose(2)), nk=c.choose(2))
        m["cm"] = SymObj("capmap", Val.ref(z3.IntVal(c.new_id())))
        kids = tuple(SymObj(f"child{i}_{j}", Val.ref(z3.IntVal(c.new_id()))) for j in range(m["nk"]))
        sel = SymObj(f"sel{i}", Val.ref(z3.IntVal(c.new_id())), attrs={"immediate": m["imm"], "focus": m["foc"], "children": kids, "_meta": m})

        def fork(it_, a, kk, i=i):
            f = SymObj(f"fork{i}", Val.ref(z3.IntVal(it_.ctx.new_id())), attrs={"template": False})
            forks.append((i, f))
            return f

        fk = SummaryFn("fork", fork)
        fk.is_method = True
        kind = {}
        acc = SymObj(f"acc{i}", Val.ref(z3.IntVal(c.new_id())), attrs={"template": m["tmpl"], "fork": fk, "__isinstance__": _acc_isinstance(
            lambda it_, kind=kind: kind.setdefault("immediate", bool(it_.ctx.choose(2, "accumulator-is-immediate"))))})
        if i == 1 and c.choose(2, "siblings-share-the-accumulator"):
            # f(g(x), h(y)): the sub-selectors of one parent are pending with the SAME accumulator; entering one of them must
            # leave the other pending (it stays current for the whole frame, e.g. while a generator is suspended)
            acc = pairs[0][1]
            m["tmpl"] = meta[0][0]["tmpl"]
            m["fork_owner"] = 0
        pairs.append((sel, acc))
        meta.append((m, sel, acc, kids))
    hc = mk_obj(it, O, "HandlerCollection", handler_pairs=list(pairs))
    tooled_now = bool(c.choose(2, "function-still-instrumented"))
    if not tooled_now:
        for m, _, _, _ in meta:
            m["fits"] = False  # nothing fits a function that has no table any more (contract of fits_selector)
    fn = SymObj("fn", Val.ref(z3.IntVal(c.new_id())), attrs=dict(_FN_NAMES, __ptera_info__={} if tooled_now else None), closed=True)
    st, res = run(it, it.getattr(hc, "proceed"), [fn])
    c.prove("no-raise", st == "ok")
    if st != "ok":
        return
    memo = it.get_global(O, "_selector_fit_cache")
    stored = [k_ for k_ in memo if isinstance(k_, tuple) and any(x is fn for x in k_)] if isinstance(memo, dict) else None
    c.prove("aux/answer-for-a-function-that-is-not-instrumented-is-not-memoised", stored is not None and (tooled_now or stored == []),
            note=f"memo entries for the function: {stored}")
    c.prove("aux/memo-keyed-by-the-function-object-and-the-selector", stored is not None and (not tooled_now or sorted(map(id, [k_[1] for k_ in stored if len(k_) == 2]))
                                                                                         == sorted({id(s_) for s_ in fits_calls})),
            note=f"{stored}")
    itor, nxt = res
    exp_pairs, exp_reg, exp_forks = [], [], []
    fi = 0
    okfork = True
    for i, (m, sel, acc, kids) in enumerate(meta):
        if not m["imm"]:
            exp_pairs.append((sel, acc))
        if m["fits"]:
            a = acc
            if m["foc"] or m["tmpl"]:
                if fi < len(forks) and forks[fi][0] == m.get("fork_owner", i):
                    a = forks[fi][1]
                    fi += 1
                else:
                    okfork = False
            exp_reg.append((a, m["cm"], m["tmpl"]))
            exp_pairs.extend((ch, a) for ch in kids)
    got = nxt.fields["handler_pairs"] if isinstance(nxt, Obj) else None
    same = lambda xs, ys: len(xs) == len(ys) and all(len(x) == len(y) and all(p is q for p, q in zip(x, y)) for x, y in zip(xs, ys))
    c.prove("ensures/next-pairs==spec", isinstance(got, list) and same(got, exp_pairs))
    c.prove("ensures/forks==spec", okfork and fi == len(forks))
    c.prove("ensures/registrations==spec", same(registered, exp_reg))
    c.prove("ensures/fresh-interactor-for-fn", isinstance(itor, Obj) and itor.fields["fn"] is fn and itor.fields["to_close"] == [])
    c.prove("frame/self-unchanged", same(hc.fields["handler_pairs"], pairs))


# ---------------------------------------------------------------------------------------------
# Interactor.register / exit
# ---------------------------------------------------------------------------------------------
@unit("register", ["C03", "C07", "C02", "C04", "C06", "C09", "C11", "C12", "C13", "C16"], [I + ":Interactor.register"], mode="bounded",
      bound="capture map with <=2 elements x <=2 names (concrete spine, symbolic members)")
def u_register(c):
    """accumulators'[v] = old[v] ++ [(el, acc) for el in capmap (in order), once per occurrence of v in capmap[el]];
    to_close' = old ++ [acc] iff close_at_exit and acc.close."""
    it = Interp(c)
    acc_close = c.choose(2)
    acc = SymObj("acc", Val.ref(z3.IntVal(c.new_id())), attrs={"close": SummaryFn("close", lambda *a: None) if acc_close else None})
    els = [SymObj(f"el{i}", Val.ref(z3.IntVal(c.new_id()))) for i in range(2)]
    names = ["a", "b"]
    capmap = {}
    ne = c.choose(3)
    for i in range(ne):
        capmap[els[i]] = [names[c.choose(2)] for _ in range(c.choose(3))]
    pre = SymObj("pre", Val.ref(z3.IntVal(c.new_id())))
    accs = collections.defaultdict(list)
    if c.choose(2):
        accs["a"].append((pre, pre))
    old = {k: list(v) for k, v in accs.items()}
    itor = mk_obj(it, I, "Interactor", fn=None, accumulators=accs, to_close=[])
    close = bool(c.choose(2))
    st, res = run(it, it.getattr(itor, "register"), [acc, capmap, close])
    c.prove("no-raise", st == "ok")
    exp = {k: list(v) for k, v in old.items()}
    for el, vs in capmap.items():
        for v in vs:
            exp.setdefault(v, []).append((el, acc))
    got = {k: list(v) for k, v in accs.items() if v or k in exp}
    same = set(got) == set(exp) and all(len(got[k]) == len(exp[k]) and all(x[0] is y[0] and x[1] is y[1] for x, y in zip(got[k], exp[k])) for k in exp)
    c.prove("ensures/accumulators", same)
    c.prove("ensures/to_close", itor.fields["to_close"] == ([acc] if (close and acc_close) else []))


r_el = z3.Function("r_element", z3.IntSort(), z3.IntSort())           # identity of the i-th key of the capture map
r_m = z3.Function("r_nnames", z3.IntSort(), z3.IntSort())              # number of names the i-th key maps to
r_nm = z3.Function("r_name", z3.IntSort(), z3.IntSort(), Val)          # the j-th of them
ev_app = z3.Function("ev_accumulators_append", Val, Val, Val, Val)     # accumulators[v].append((element, acc))
R_OUT = z3.Function("R_OUT", z3.IntSort(), Log)                        # ghost history at the start of outer iteration i
R_IN = z3.Function("R_IN", z3.IntSort(), z3.IntSort(), Log)            # ... at the start of inner iteration j of outer iteration i


@unit("register.any-size", ["C03", "C07", "C02", "C04", "C06", "C09", "C11", "C12", "C13", "C16"], [I + ":Interactor.register"],
      assumed=["the table of accumulators is a mapping whose missing keys are created on demand (collections.defaultdict(list)); "
               "the per-name lists are known through the sequence of their appends"])
def u_register_unbounded(c):
    """Unbounded form of `register`: for a capture map with ANY number of elements, each mapping to ANY number of names (repetitions
    allowed), the appends made to the table of accumulators are exactly (v, (element, acc)) for element in map order and v in the order
    of its names -- nothing else is read or written in the table -- and to_close gains acc iff close_at_exit and acc.close."""
    it = Interp(c)
    n = z3.Int("n")
    c.inputs["n"] = SInt(n)
    c.assume(n >= 0)
    acc_close = c.choose(2)
    acc = SymObj("acc", Val.ref(z3.IntVal(c.new_id())), attrs={"close": SummaryFn("close", lambda *a: None) if acc_close else None})
    acc_t = it.to_val(acc)

    def el_obj(i):
        return SymObj("element", Val.ref(r_el(i)))

    def item(i):
        c.assume(r_m(i) >= 0)
        return (el_obj(i), SymSeq("varnames", r_m(i), lambda j: SVal(r_nm(i, j)), kind="set"))

    def table_getitem(it_, a, k):
        key = it_.to_val(a[0])

        def append(it__, b, kk):
            pair = b[0]
            if not (isinstance(pair, tuple) and len(pair) == 2):
                raise PyRaise(AssertionError("register appends something that is not an (element, accumulator) pair"))
            it__.ctx.emit(ev_app(key, it__.to_val(pair[0]), it__.to_val(pair[1])))

        return SymObj("accumulators[v]", Val.ref(z3.IntVal(c.new_id())), attrs={"append": SummaryFn("append", append)}, closed=True)

    table = SymObj("accumulators", Val.ref(z3.IntVal(c.new_id())), attrs={"__getitem__": SummaryFn("accumulators.__getitem__", table_getitem)}, closed=True)
    capmap = SymObj("captures", Val.ref(z3.IntVal(c.new_id())), attrs={"items": SummaryFn("captures.items", lambda it_, a, k: SymSeq("captures.items()", n, item))}, closed=True)

    def outer_axioms(it_, env, i):
        return [R_OUT(z3.IntVal(0)) == log_nil, R_OUT(i + 1) == R_IN(i, r_m(i)), R_IN(i, z3.IntVal(0)) == R_OUT(i)]

    def inner_ghost(it_, env, j):
        return R_IN(env.loop_index[0], j)

    def inner_axioms(it_, env, j):
        i = env.loop_index[0]
        return [R_IN(i, z3.IntVal(0)) == R_OUT(i),
                R_IN(i, j + 1) == log_snoc(R_IN(i, j), ev_app(r_nm(i, j), Val.ref(r_el(i)), acc_t))]

    it.loopspecs = {(I + ":Interactor.register", 0): LoopSpec(ghost=lambda it_, env, i: R_OUT(i), axioms=outer_axioms),
                    (I + ":Interactor.register", 1): LoopSpec(ghost=inner_ghost, axioms=inner_axioms)}
    to_close = []
    itor = mk_obj(it, I, "Interactor", fn=None, accumulators=table, to_close=to_close)
    close = bool(c.choose(2))
    st, res = run(it, it.getattr(itor, "register"), [acc, capmap, close])
    c.prove("no-raise", st == "ok")
    c.cover("return")
    c.prove("ensures/appends==one-per-(element,name)-in-map-order-and-nothing-else", c.log == R_OUT(n))
    c.prove("ensures/to_close", itor.fields["to_close"] == ([acc] if (close and acc_close) else []))
    c.prove("frame/table-object-kept", itor.fields["accumulators"] is table)


ev_close = z3.Function("ev_close", Val, Val)
x_acc = z3.Function("x_acc", z3.IntSort(), z3.IntSort())


@unit("Interactor.exit", ["C07"], [I + ":Interactor.exit"])
def u_exit(c):
    """exit() calls acc.close() exactly once per element of to_close, in order (any length)."""
    it = Interp(c)
    n = z3.Int("n")
    c.inputs["n"] = SInt(n)
    c.assume(n >= 0)

    def elem(i):
        def close(it_, a, k):
            it_.ctx.emit(ev_close(Val.ref(x_acc(i))))

        s = SummaryFn("close", close)
        s.is_method = True
        return SymObj("acc", Val.ref(x_acc(i)), attrs={"close": s})

    CL = Fold("CL", Log, log_nil, lambda i, acc: log_snoc(acc, ev_close(Val.ref(x_acc(i)))))
    it.loopspecs = {(I + ":Interactor.exit", 0): LoopSpec(ghost=lambda it_, env, i: CL.at(i), axioms=lambda it_, env, i: CL.axioms(i))}
    itor = mk_obj(it, I, "Interactor", fn=None, accumulators={}, to_close=SymSeq("to_close", n, elem))
    st, res = run(it, it.getattr(itor, "exit"), [])
    c.prove("no-raise", st == "ok")
    c.prove("ensures/close-once-each-in-order", c.log == CL.at(n))


# ---------------------------------------------------------------------------------------------
# fits_selector
# ---------------------------------------------------------------------------------------------
fs_ce = z3.Function("fs_check_element", Val, Val, Val, z3.BoolSort())


def _ce_uf(it, f, args, kwargs):
    el, name, cat = args
    return concretize(SBool(fs_ce(it.to_val(el), it.to_val(name), it.to_val(cat))))


@unit("fits_selector", ["C03", "C10", "C11", "C06", "C02", "C09", "C05", "C04", "C07", "C12", "C13", "C16"], [O + ":fits_selector"], mode="bounded",
      bound="<=2 captures per selector level, <=3 variables in the function table (concrete spine, symbolic matching)")
def u_fits(c):
    """fits_selector(fn, sel) is False iff the function element mismatches (name / return-annotation tag) or some capture
    cannot be located; otherwise the capture map: generic capture -> ALL matching variable names (table order),
    named capture -> [its name] provided its base name is in the table or it is a #meta name."""
    it = Interp(c, policies={S + ":check_element": _ce_uf})
    fcat = [None, "RET"][c.choose(2)]
    nvars = c.choose(3) + 1
    varnames = ["a", "b", "cc"][:nvars]
    info = {v: {"annotation": f"ann_{v}"} for v in varnames}
    anns = {"return": fcat} if fcat is not None else {}
    fn = SymObj("fn", Val.ref(z3.IntVal(c.new_id())), attrs={"__annotations__": anns, "__ptera_info__": info})
    el = SymObj("fel", Val.ref(z3.IntVal(c.new_id())))
    if c.choose(2, "function-no-longer-instrumented"):
        # an activation that started while the function was instrumented (a generator still running) reaches proceed after the
        # last probe was removed: the function has no table any more -- it fits nothing, and nothing fails
        bare = SymObj("fn-without-table", Val.ref(z3.IntVal(c.new_id())), attrs={"__annotations__": {}}, closed=True)
        st, res = run(it, it.get_global(O, "fits_selector"), [bare, SymObj("sel", Val.ref(z3.IntVal(c.new_id())), attrs={"element": el, "captures": ()})])
        c.prove("not-instrumented-any-more/fits-nothing-without-failing", st == "ok" and res is False, note=f"{st} {res!r}", only=["C09", "C05", "C03"])
        return
    caps = []
    for i in range(c.choose(3)):
        kind = c.choose(7)
        # meta-variables are located in every function, whatever their spelling (loop markers carry the loop variable's name,
        # which may itself contain underscores or dots)
        name = [None, "a", "zz.attr", "#value", "#loop_row_idx", "#endloop_zz_a", "#loop_b"][kind]
        if kind == 2 and c.choose(2):
            name = "b.attr"
        caps.append(SymObj(f"cap{i}", Val.ref(z3.IntVal(c.new_id())), attrs={"name": name}))
    sel = SymObj("sel", Val.ref(z3.IntVal(c.new_id())), attrs={"element": el, "captures": tuple(caps)})
    st, res = run(it, it.get_global(O, "fits_selector"), [fn, sel])
    c.prove("no-raise", st == "ok")
    el_ok = fs_ce(it.to_val(el), it.to_val(fn), it.to_val(fcat))
    fail = [z3.Not(el_ok)]
    exp = {}
    for cap in caps:
        nm = cap.attrs["name"]
        if nm is None:
            ms = [fs_ce(it.to_val(cap), it.to_val(v), it.to_val(info[v]["annotation"])) for v in varnames]
            fail.append(z3.Not(z3.Or(*ms)))
            exp[cap] = ms
        else:
            base = nm.split(".")[0]
            if not nm.startswith("#") and base not in info:
                fail.append(z3.BoolVal(True))
            exp[cap] = nm
    if res is False:
        c.cover("False")
        c.prove("ensures/False-only-if-mismatch", z3.Or(*fail))
    else:
        c.cover("map")
        c.prove("ensures/map-only-if-everything-located", z3.Not(z3.Or(*fail)))
        ok = isinstance(res, dict) and list(res.keys()) == caps
        c.prove("ensures/map-keys-are-the-captures-in-order", ok)
        if ok:
            for cap in caps:
                e = exp[cap]
                if isinstance(e, str):
                    c.prove("ensures/named-capture-maps-to-its-name", res[cap] == [e])
                else:
                    got = res[cap]
                    conj = [z3.BoolVal(all(g in varnames for g in got) and got == [v for v in varnames if v in got])]
                    for v, m in zip(varnames, e):
                        conj.append(m if v in got else z3.Not(m))
                    c.prove("ensures/generic-capture-maps-to-all-matching-variables", z3.And(*conj))


# ---------------------------------------------------------------------------------------------
# HandlerCollection.plus, BaseOverlay.__enter__/__exit__, proceed.__enter__/__exit__
# ---------------------------------------------------------------------------------------------
handlers_t = z3.Const("handlers_t", Log)
oldpairs_t = z3.Const("oldpairs_t", Log)
attr_selector = z3.Function("attr_selector", Val, Val)


def _current_var(it):
    HC = it.get_global(O, "HandlerCollection")
    return HC, HC.attrs["current"]


def _own_pairs_term():
    return M.seq_map(handlers_t, M.mk_tuple2(attr_selector(M.HOLE), M.HOLE))


@unit("BaseOverlay.enter-exit", ["C05", "C17", "C09", "C02", "C03", "C04", "C06", "C07", "C11", "C12", "C13", "C14", "C16"], [O + ":BaseOverlay.__enter__", O + ":BaseOverlay.__exit__", O + ":HandlerCollection.plus",
                                                O + ":HandlerCollection.__init__"],
      assumed=["contextvars.ContextVar: get() returns the current value (or the default), set(v) returns a token remembering the previous value, reset(token) restores it"])
def u_overlay_enter_exit(c):
    """__enter__ installs a NEW collection whose pairs are the previous pairs followed by (h.selector, h) for each own
    handler, each exactly once (any number of handlers); the previous collection object is not modified.  __exit__ must
    leave exactly the pairs that were current at exit time minus its own."""
    it = Interp(c)
    it.val_attrs = {"selector"}
    HC, var = _current_var(it)
    n = z3.Int("n")
    c.inputs["n"] = SInt(n)
    c.assume(n >= 0)
    empty = c.decide(n == 0)
    if empty:
        handlers = []
    else:
        handlers = SymSeq("handlers", n, lambda i: SVal(z3.Const("never", Val)))
        handlers.term = handlers_t
    # the empty overlay is built by the real constructor (its attributes are exactly those __init__ sets)
    ov = it.call(it.get_global(O, "BaseOverlay"), [], {}) if empty else mk_obj(it, O, "BaseOverlay", handlers=handlers)
    had = c.choose(3)
    if had == 2 and not empty:
        # the current collection is the EMPTY collection made by proceed for a call that started under no overlay (a generator that is
        # still suspended, or the overlay is entered inside an instrumented function): it belongs to that frame and must not be touched
        prev = it.call(HC, [[]], {})
        var.value = prev
        st, col = run(it, it.getattr(ov, "__enter__"), [])
        c.prove("enter-over-an-empty-collection/new-collection-previous-one-left-empty", st == "ok" and var.value is not prev and col is var.value
                and prev.fields["handler_pairs"] == [], note=f"{st}", only=["C05", "C09"])
        st, _ = run(it, it.getattr(ov, "__exit__"), [None, None, None])
        c.prove("enter-over-an-empty-collection/exit-restores-it-still-empty", st == "ok" and var.value is prev and prev.fields["handler_pairs"] == [], only=["C05", "C09"])
        return
    had = had % 2
    if had:
        prev_pairs = SymSeq("old_pairs", z3.Int("m"), lambda i: None)
        prev_pairs.term = oldpairs_t
        prev = mk_obj(it, O, "HandlerCollection", handler_pairs=prev_pairs)
        var.value = prev
    else:
        prev = None
    st, col = run(it, it.getattr(ov, "__enter__"), [])
    c.prove("enter/no-raise", st == "ok")
    if st != "ok":
        return
    if empty:
        c.prove("enter/no-handlers-is-a-noop", var.value is prev and col is None)
        if c.choose(2, "handler-added-inside-the-block"):
            # `with ol: ol.tap(...)`: a handler added while the (empty) overlay is active was never installed; leaving the block
            # must still work and leave the context as it was
            it.call(it.getattr(ov, "add"), [SymObj("late-handler", Val.ref(z3.IntVal(c.new_id())), attrs={"selector": SymObj("s", Val.ref(z3.IntVal(c.new_id())))})], {})
        st, _ = run(it, it.getattr(ov, "__exit__"), [None, None, None])
        c.prove("exit/no-handlers-is-a-noop", st == "ok" and var.value is prev, note=f"{st}")
        return
    cur = var.value
    c.prove("enter/installs-new-collection", isinstance(cur, Obj) and cur.cls is HC and cur is not prev and col is cur)
    own = _own_pairs_term()
    want = log_cat(oldpairs_t, own) if had else own
    c.prove("enter/pairs==previous++own-each-once", it.models.listterm_of(it, cur.fields["handler_pairs"]) == want)
    if had:
        c.prove("enter/previous-collection-not-modified", prev.fields["handler_pairs"] is prev_pairs)
    # LIFO exit: the collection this overlay installed is still the current one
    c.cover("lifo")
    st, _ = run(it, it.getattr(ov, "__exit__"), [None, None, None])
    c.prove("exit/no-raise", st == "ok")
    c.prove("exit/LIFO-restores-previous", var.value is prev)


@unit("BaseOverlay.exit-nonlifo", ["C05", "C09", "C02", "C17", "C07", "C03", "C04", "C14", "C06", "C11", "C12", "C13", "C16"], [O + ":BaseOverlay.__enter__", O + ":BaseOverlay.__exit__", O + ":HandlerCollection.plus"], mode="bounded",
      bound="overlay with 1-2 handlers, 0-1 pairs installed before it, 1-2 pairs installed after it (all orders of exit); the later / earlier "
            "handlers may carry the very same (interned) selector object as an own handler")
def u_overlay_exit_nonlifo(c):
    """Exit in any order: when the current collection is not the one this overlay installed (another overlay was activated
    afterwards and is still active), __exit__ leaves exactly the pairs that were current minus its own, in order; the
    overlay activated later can then exit as well and leaves what was there before both."""
    it = Interp(c)
    HC, var = _current_var(it)
    mkh = lambda nm: SymObj(nm, Val.ref(z3.IntVal(c.new_id())), attrs={"selector": SymObj("sel_" + nm, Val.ref(z3.IntVal(c.new_id())))})
    own = [mkh(f"own{i}") for i in range(1 + c.choose(2, "own"))]
    later_h = [mkh(f"later{i}") for i in range(1 + c.choose(2, "later"))]
    had = c.choose(3, "previous")
    empty_prev = had == 2  # the EMPTY collection proceed makes for a call that started under no overlay (suspended generator)
    had = 1 if had == 1 else 0
    prev_pair = (SymObj("psel", Val.ref(z3.IntVal(c.new_id()))), mkh("prev"))
    if c.choose(2, "same-selector"):
        # selectors are interned: two probes given the same selector text carry the very same selector object; what belongs
        # to an overlay is decided by the identity of its HANDLERS, never by their selectors
        later_h[0].attrs["selector"] = own[0].attrs["selector"]
        prev_pair[1].attrs["selector"] = own[0].attrs["selector"]
        prev_pair = (own[0].attrs["selector"], prev_pair[1])
    prev = mk_obj(it, O, "HandlerCollection", handler_pairs=[prev_pair]) if had else (mk_obj(it, O, "HandlerCollection", handler_pairs=[]) if empty_prev else None)
    var.value = prev
    ov1 = mk_obj(it, O, "BaseOverlay", handlers=list(own))
    ov2 = mk_obj(it, O, "BaseOverlay", handlers=list(later_h))
    run(it, it.getattr(ov1, "__enter__"), [])
    run(it, it.getattr(ov2, "__enter__"), [])
    pairs = lambda: [] if var.value is None else list(var.value.fields["handler_pairs"])
    ids = lambda ps: [id(p[1]) for p in ps]
    c.prove("enter/both-installed-in-order", ids(pairs()) == ([id(prev_pair[1])] if had else []) + [id(h) for h in own + later_h])
    if c.choose(2, "derived"):
        # the current collection was DERIVED from that one by a call frame (HandlerCollection.proceed keeps the non-immediate
        # pairs but builds new (selector, accumulator) tuples), e.g. by a generator that is still suspended
        var.value = mk_obj(it, O, "HandlerCollection", handler_pairs=[(p[0], p[1]) for p in pairs()])
    st, _ = run(it, it.getattr(ov1, "__exit__"), [None, None, None])  # the FIRST one leaves first
    c.prove("exit/no-raise", st == "ok")
    c.prove("exit/non-LIFO-removes-exactly-own-handlers", ids(pairs()) == ([id(prev_pair[1])] if had else []) + [id(h) for h in later_h])
    st, _ = run(it, it.getattr(ov2, "__exit__"), [None, None, None])
    c.prove("exit/second-exit-leaves-what-was-there-before-both", st == "ok" and ids(pairs()) == ([id(prev_pair[1])] if had else []))
    c.prove("frame/previous-collection-object-untouched", (prev is None) or prev.fields["handler_pairs"] == ([prev_pair] if had else []),
            note=f"previous pairs now {len(prev.fields['handler_pairs']) if prev is not None else None}")


ev_proceed = z3.Function("ev_proceed", Val, Val, Val)
ev_exit = z3.Function("ev_itor_exit", Val, Val)


@unit("proceed.enter-exit", ["C03", "C07", "C09", "C05", "C02", "C06", "C04"], [O + ":proceed.__init__", O + ":proceed.__enter__", O + ":proceed.__exit__", O + ":proceed.suspend",
                                                                            O + ":proceed.resume"],
      assumed=["contextvars.ContextVar get / set semantics", "HandlerCollection.proceed used through its contract",
               "a generator's yields go through proceed.yielding, which calls suspend before the generator is suspended and resume when it is resumed by "
               "next / send / throw / close (bounded: scenario generator_shell_is_transparent; the rewriting: visit_Yield/yield/the-frame-does-the-yield)"])
def u_proceed_enter_exit(c):
    """with proceed(fn): __enter__ sets current to the collection returned by (current or empty).proceed(fn) and yields its interactor;
    __exit__ (normal or exceptional) puts back the collection of the surrounding code and calls interactor.exit() exactly once.
    While the activation is SUSPENDED (a generator at a yield) the surrounding code has its own handlers back, whatever it installs
    meanwhile survives the resumption and the end of the activation, and activations may end in any order."""
    it = Interp(c)
    HC, var = _current_var(it)
    fn = SymObj("fn", Val.ref(z3.IntVal(c.new_id())))
    calls = []

    def proceed_summary(it_, f, args, kwargs):
        self_, fn_ = args
        calls.append(self_)
        new = mk_obj(it_, O, "HandlerCollection", handler_pairs=[])
        exits = []

        def do_exit(it__, a, k):
            exits.append(1)

        s = SummaryFn("exit", do_exit)
        s.is_method = True
        itor = SymObj("itor", Val.ref(z3.IntVal(it_.ctx.new_id())), attrs={"exit": s, "_exits": exits})
        it_.ctx.__dict__["made"] = (itor, new)
        return (itor, new)

    it.policies[PROCEED] = proceed_summary
    P_ = it.get_global(O, "proceed")
    has = all(P_.lookup(n)[0] is not None for n in ("suspend", "resume"))
    c.prove("the-frame-can-be-suspended-and-resumed", has, note="proceed.suspend / proceed.resume")
    if not has:
        return
    had = c.choose(2)
    prev = mk_obj(it, O, "HandlerCollection", handler_pairs=[("s", "a")]) if had else None
    var.value = prev
    p = it.call(P_, [fn], {})
    st, got = run(it, it.getattr(p, "__enter__"), [])
    c.prove("enter/no-raise", st == "ok")
    if st != "ok":
        return
    itor, new = c.__dict__["made"]
    c.prove("enter/proceeds-from-current-or-empty", len(calls) == 1 and (calls[0] is prev if had else (isinstance(calls[0], Obj) and calls[0].fields["handler_pairs"] == [])))
    c.prove("enter/installs-new-and-yields-interactor", var.value is new and got is itor)
    exc = c.choose(2)
    args = [None, None, None] if not exc else [ValueError, ValueError("boom"), None]
    scen = c.choose(5)
    if scen == 3:
        # a close handler raises while the activation ends: the exception propagates, and the collection that was current
        # at entry is restored all the same (a block left by an exception leaves no handler installed)
        from pvc.units import UserError

        def bad_exit(it__, a, k):
            itor.attrs["_exits"].append(1)
            raise PyRaise(UserError("close handler"))

        be = SummaryFn("exit", bad_exit)
        be.is_method = True
        itor.attrs["exit"] = be
        st, r = run(it, it.getattr(p, "__exit__"), args)
        c.prove("exit/handler-exception-propagates", st == "raise" and isinstance(r, UserError))
        c.prove("exit/collection-restored-even-if-a-close-handler-raises", var.value is prev)
        return
    if scen == 2:
        # a SECOND activation (another generator) was entered after this one and is suspended when this one ends, and is resumed and
        # ends later: the surrounding code never changed its handlers, so it has the collection it had at entry at every moment
        p2 = it.call(P_, [fn], {})
        st2, _ = run(it, it.getattr(p2, "__enter__"), [])
        itor2, new2 = c.__dict__["made"]
        c.prove("second/enter-no-raise", st2 == "ok" and var.value is new2 and var.value is not new)
        st2, _ = run(it, it.getattr(P_, "suspend"), [itor2])
        c.prove("second/suspended:the-first-activation's-handlers-are-current-again", st2 == "ok" and var.value is new)
        st, r = run(it, it.getattr(p, "__exit__"), args)
        c.prove("exit/no-raise", st == "ok")
        c.prove("exit/earlier-activation-ending-first-restores-the-surrounding-context", var.value is prev)
        c.prove("exit/interactor.exit-once", len(itor.attrs["_exits"]) == 1)
        st2, _ = run(it, it.getattr(P_, "resume"), [itor2])
        c.prove("second/resumed-later:its-own-handlers-current", st2 == "ok" and var.value is new2)
        st2, _ = run(it, it.getattr(p2, "__exit__"), [None, None, None])
        c.prove("second/ends-later:the-surrounding-context-is-what-it-was", st2 == "ok" and var.value is prev)
        return
    if scen == 0:
        st, r = run(it, it.getattr(p, "__exit__"), args)
        c.prove("exit/no-raise", st == "ok")
        c.prove("exit/restores-collection-at-entry", var.value is prev)
        c.prove("exit/interactor.exit-once", len(itor.attrs["_exits"]) == 1)
        c.prove("exit/does-not-swallow-exceptions", not it.truth(r))
        return
    # the activation is a generator that is suspended k times; each time the surrounding code may install something else (an overlay
    # entered or left, a probe activated or deactivated, another generator advanced)
    k = 1 + c.choose(2, "suspensions")
    surrounding = prev
    for j in range(k):
        st, _ = run(it, it.getattr(P_, "suspend"), [itor])
        c.prove(f"suspend{j}/the-surrounding-code-has-its-handlers-back", st == "ok" and var.value is surrounding)
        what = c.choose(3, "meanwhile")  # 0 nothing, 1 something else installed, 2 everything removed
        if what == 1:
            surrounding = mk_obj(it, O, "HandlerCollection", handler_pairs=[("x", j)])
            var.value = surrounding
        elif what == 2:
            surrounding = None
            var.value = None
        if scen == 4 and j == k - 1:
            break  # the generator is dropped / closed while suspended: resume happens as part of the close (assumption above)
        st, _ = run(it, it.getattr(P_, "resume"), [itor])
        c.prove(f"resume{j}/the-activation's-handlers-are-current-again", st == "ok" and var.value is new)
    if scen == 4:
        st, _ = run(it, it.getattr(P_, "resume"), [itor])
        c.prove("close-while-suspended/resume-then-exit", st == "ok" and var.value is new)
    st, r = run(it, it.getattr(p, "__exit__"), args)
    c.prove("exit/no-raise", st == "ok")
    c.prove("exit/interactor.exit-once", len(itor.attrs["_exits"]) == 1)
    c.prove("exit/non-LIFO-does-not-disturb-surrounding-handlers", var.value is surrounding, note=f"current after the end: {var.value!r}, the surrounding code had {surrounding!r}")


@unit("proceed.exit-propagates", ["C01", "C06", "C07", "C02"], [O + ":proceed.__exit__"], replay=_replay_file("c01_exit_propagates.py"),
      assumed=["Python's with statement: the exception that ended the block propagates iff __exit__ returns a false value"])
def u_proceed_exit_propagates(c):
    """Every instrumented body runs inside `with proceed(fn)`; the transformer's contract relies on that block being
    transparent for exceptions.  Contract of proceed.__exit__: whatever interactor.exit() returns (arbitrary value, by
    contract of nothing but its name), the result of __exit__ is false, so an exception raised by the body propagates."""
    it = Interp(c)
    HC, var = _current_var(it)
    fn = SymObj("fn", Val.ref(z3.IntVal(c.new_id())))
    ret = c.val("interactor_exit_result")

    def proceed_summary(it_, f, args, kwargs):
        s = SummaryFn("exit", lambda it__, a, k: ret)
        s.is_method = True
        itor = SymObj("itor", Val.ref(z3.IntVal(it_.ctx.new_id())), attrs={"exit": s})
        return (itor, mk_obj(it_, O, "HandlerCollection", handler_pairs=[]))

    it.policies[PROCEED] = proceed_summary
    var.value = None
    p = it.call(it.get_global(O, "proceed"), [fn], {})
    st, _ = run(it, it.getattr(p, "__enter__"), [])
    c.require(st == "ok")
    exc = c.choose(2)
    args = [None, None, None] if not exc else [ValueError, ValueError("boom"), None]
    st, r = run(it, it.getattr(p, "__exit__"), args)
    c.prove("exit/no-raise", st == "ok")
    if st != "ok":
        return
    tt = it.truth_term(r)
    c.prove("exit/result-is-false-whatever-interactor.exit-returns", (tt is False) if isinstance(tt, bool) else z3.Not(tt))
