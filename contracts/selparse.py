"""C15 / C18 / C13: selector compilation -- evaluation actions, Evaluator dispatch, Parser.process on token skeletons,
_select / _guarantee_call / _resolve / _dig, Call.problems / verify, Probe._make_emitter / _make_rule."""
import ast
import itertools

import z3

from pvc.units import (unit, mk_obj, term_of, run, callback, calls_of, LoopSpec, Interp, PyRaise, SymObj,
                       SymSeq, SummaryFn, Obj, Sym, SInt, SBool, SStr, SVal, Val, concretize, exc_name)
from pvc.values import FuncV, ClassV, BoundV

S = "ptera.selector"
OP = "ptera.opparse"
P = "ptera.probe"

ACTIONS = {
    # key pattern -> (action function name, text template for the replay string)
    "_ ( X ) _": ("make_group", "({1})"),
    "X > X": ("make_nested_imm", "{0} > {1}"),
    "_ : X": ("make_class", ":{1}"),
    "X : X": ("make_class", "{0}:{1}"),
    "_ ! X": ("make_focus", "!{1}"),
    "_ !! X": ("make_double_focus", "!!{1}"),
    "_ $ X": ("make_dollar", "${1}"),
    "X ( _ ) _": ("make_call_capture", "{0}()"),
    "X ( X ) _": ("make_call_capture", "{0}({1})"),
    "X , X": ("make_sequence", "{0}, {1}"),
    "X as X": ("make_as", "{0} as {1}"),
    "X = X": ("make_equals", "{0}={1}"),
    "X ~ X": ("make_matchfn", "{0}~{1}"),
}
KIND_TEXT = {"element": "x", "wild": "*", "call": "g(y)", "list": "(p, q)", "nested-list": "((p, q), r)", "vsymbol": "v", "vcall": "h(1)", "vkeyword": "(k=1)", "vlist": "(1, 2)"}
VALUE_POSITIONS = {("_ : X", 1), ("X : X", 1), ("X = X", 1), ("X ~ X", 1)}  # operands evaluated with value_evaluate


def _operand(it, kind):
    Element = it.get_global(S, "Element")
    Call = it.get_global(S, "Call")
    if kind == "element":
        return it.call(Element, [], dict(name="x", capture="x", tags=frozenset({1})))
    if kind == "wild":
        return it.call(Element, [], dict(name=None))
    if kind == "call":
        VSymbol = it.get_global(S, "VSymbol")
        return it.call(Call, [], dict(element=it.call(Element, [], dict(name=it.call(VSymbol, ["g"], {}))),
                                      captures=(it.call(Element, [], dict(name="y", capture="y")),)))
    if kind == "list":
        return [it.call(Element, [], dict(name="p", capture="p")), it.call(Element, [], dict(name="q", capture="q"))]
    if kind == "nested-list":
        # `(p, q), r`: the sequence operator flattens its RIGHT operand only, so a parenthesised sequence on the left stays nested
        return [[it.call(Element, [], dict(name="p", capture="p")), it.call(Element, [], dict(name="q", capture="q"))],
                it.call(Element, [], dict(name="r", capture="r"))]
    VSymbol = it.get_global(S, "VSymbol")
    if kind == "vsymbol":
        return it.call(VSymbol, ["v"], {})
    if kind == "vcall":
        return it.call(it.get_global(S, "VCall"), [it.call(VSymbol, ["h"], {}), (it.call(VSymbol, ["1"], {}),)], {})
    if kind == "vkeyword":
        return it.call(it.get_global(S, "VKeyword"), [it.call(VSymbol, ["k"], {}), it.call(VSymbol, ["1"], {})], {})
    if kind == "vlist":
        return [it.call(VSymbol, ["1"], {}), it.call(VSymbol, ["2"], {})]
    raise AssertionError(kind)


def _replay_parse(o):
    note = o.get("note") or ""
    if "string=" not in note:
        return None
    s = note.split("string=", 1)[1].split(" ||", 1)[0]
    return f'''
import sys
sys.path.insert(0, __import__("os").environ.get("PVC_REPO", "/repo"))
from ptera.selector import parse, SelectorError
s = {s!r}
try:
    r = parse(s)
    print("parse(%r) ->" % s, r)
    sys.exit(0)
except (SyntaxError, SelectorError) as e:
    print("refused cleanly:", type(e).__name__, e)
    sys.exit(0)
except BaseException as e:
    print("parse(%r) failed with an internal error: %s: %s" % (s, type(e).__name__, e))
    sys.exit(1)
'''


@unit("evaluator-actions", ["C18"], [S + ":" + a for a in sorted({v[0] for v in ACTIONS.values()})] + [S + ":_guarantee_call", S + ":Evaluator.__call__"],
      replay=_replay_parse, replay_decides=True,
      assumed=["induction hypothesis: evaluate(sub-tree) returns an Element, a Call or a FLAT list of those (or raises SyntaxError; flatness is itself an obligation of make_sequence); value_evaluate returns a VSymbol / VCall / VKeyword / list"])
def u_actions(c):
    """Every evaluation action, for EVERY combination of kinds of its (already evaluated) operands, in both contexts:
    returns an Element, a Call or a list, or raises SyntaxError -- never an assertion / attribute / type / index error.
    This covers all parse trees (an over-approximation of what the parser can produce)."""
    it = Interp(c)
    keys = sorted(ACTIONS)
    key = keys[c.choose(len(keys), "action")]
    fname, template = ACTIONS[key]
    parts = key.split(" ")
    slots = [p for i, p in enumerate(parts) if i % 2 == 0]
    kinds = []
    operands = []
    for i, sl in enumerate(slots):
        if sl == "_":
            kinds.append(None)
            operands.append(None)
        elif (key, i) in VALUE_POSITIONS:
            k = ["vsymbol", "vcall", "vkeyword", "vlist"][c.choose(4, "vkind")]
            kinds.append(k)
            operands.append(SymObj("tree:" + k, Val.ref(z3.IntVal(c.new_id())), attrs={"_kind": k}))
        else:
            # lists are FLAT: make_sequence flattens both operands (clause sequence-is-flat below) and make_group returns its operand, so by
            # induction no evaluated sub-tree is a nested list (before fix of make_sequence a `nested-list` kind was part of this split)
            k = ["element", "wild", "call", "list"][c.choose(4, "kind")]
            kinds.append(k)
            operands.append(SymObj("tree:" + k, Val.ref(z3.IntVal(c.new_id())), attrs={"_kind": k}))
    context = ["root", "incall"][c.choose(2, "context")]

    def ev_policy(it_, f, args, kwargs):
        tree = args[1]
        if isinstance(tree, SymObj) and "_kind" in tree.attrs:
            return _operand(it_, tree.attrs["_kind"])
        return it_.call_body(f, args, kwargs)

    it.policies[S + ":Evaluator.__call__"] = ev_policy
    text = template.format(*[KIND_TEXT.get(k, "") for k in (kinds + [None, None])[:3]])
    if context == "incall":
        text = "f(" + text + ")"
    node = it.call(it.get_global(OP, "Token"), ["op", "OPERATOR", text, 0, 1], {})
    action = it.get_global(S, fname)
    st, r = run(it, action, [node] + operands, dict(context=context))
    label = f"{fname}[{key}]"
    if st == "ok":
        ok = (isinstance(r, Obj) and r.cls.name in ("Element", "Call")) or isinstance(r, list)
        c.prove(f"{label}/returns-selector-or-list", ok, note=f"kinds={kinds} string={text} ||")
        if fname == "make_sequence" and isinstance(r, list):
            # a parenthesised group inside a sequence is only grouping: `(a, b), c` is the sequence a, b, c.  A nested list would be
            # dropped silently by the call that receives it (`f((a, b), c)` capturing c only)
            c.prove(f"{label}/sequence-is-flat", all(not isinstance(x, list) for x in r), note=f"kinds={kinds} string={text} ||")
    else:
        c.prove(f"{label}/no-internal-error:{'+'.join(str(k) for k in kinds)}", isinstance(r, SyntaxError) or exc_name(r) == "SelectorError",
                note=f"raised {exc_name(r)}: {r!r} context={context} string={text} ||")


@unit("Evaluator.dispatch", ["C18"], [S + ":Evaluator.__call__", S + ":make_symbol", OP + ":Location.syntax_error", S + ":parse"], replay=_replay_parse)
def u_dispatch(c):
    """Evaluator.__call__: a Token is a SYMBOL; an unknown operator shape raises SyntaxError carrying the offending
    position (offset = start + 1); an empty parse (None) must be refused with a syntax error, not an assertion."""
    it = Interp(c)
    ev = it.get_global(S, "evaluate")
    k = c.choose(5, "case")
    Token = it.get_global(OP, "Token")
    if k == 4:
        # the empty / blank string through the real parse(): a syntax error WITH the offending position, like every other one
        src = ["", "  ", "\n"][c.choose(3, "blank")]
        st, r = run(it, it.get_global(S, "parse"), [src])
        c.prove("blank-string/SyntaxError-with-position", st == "raise" and isinstance(r, SyntaxError) and getattr(r, "offset", None) == 1
                and getattr(r, "text", None) == src, note=f"raised {exc_name(r) if st == 'raise' else None} offset={getattr(r, 'offset', None)!r} string={src} ||")
        return
    if k == 0:
        st, r = run(it, ev, [None])
        c.prove("empty-selector/refused-with-SyntaxError", st == "raise" and isinstance(r, SyntaxError), note=f"raised {exc_name(r) if st == 'raise' else None} string= ||")
    elif k == 1:
        tok = it.call(Token, ["x", "WORD", "x", 0, 1], {})
        ctx = ["root", "incall"][c.choose(2)]
        st, r = run(it, ev, [tok], dict(context=ctx))
        ok = st == "ok" and r.cls.name == "Element" and r.fields["name"] == "x" and r.fields["capture"] == "x" and r.fields["tags"] == (frozenset({1}) if ctx == "root" else frozenset())
        c.prove("symbol/element-with-root-focus", ok)
    elif k == 2:
        tok = it.call(Token, ["*", "WORD", "*", 0, 1], {})
        st, r = run(it, ev, [tok])
        c.prove("star/wildcard-element", st == "ok" and r.fields["name"] is None and r.fields["capture"] is None)
    else:
        ASTNode = it.get_global(OP, "ASTNode")
        op = it.call(Token, ["?", None, "a ? b", 2, 3], {})
        a = it.call(Token, ["a", "WORD", "a ? b", 0, 1], {})
        b = it.call(Token, ["b", "WORD", "a ? b", 4, 5], {})
        node = it.call(ASTNode, [[a, op, b]], {})
        st, r = run(it, ev, [node])
        c.prove("unknown-operator/SyntaxError-with-position", st == "raise" and isinstance(r, SyntaxError) and getattr(r, "offset", None) == 3
                and getattr(r, "text", None) == "a ? b")


@unit("select-entry", ["C18"], [S + ":_select", S + ":_guarantee_call"], replay=_replay_parse)
def u_select_entry(c):
    """_select / _guarantee_call accept an Element or a Call; anything else the parser can hand them (a list: 'a,b',
    '(a,b) > c') must be refused with a syntax/selector error, not an assertion."""
    it = Interp(c)
    k = c.choose(3, "kind")
    kind = ["element", "call", "list"][k]
    val = _operand(it, kind)
    it.policies[S + ":parse"] = lambda it_, f, a, kw: val
    st, r = run(it, it.get_global(S, "_select"), ["<string>"])
    if kind == "list":
        c.prove("_select/list-refused-cleanly", st == "raise" and (isinstance(r, SyntaxError) or exc_name(r) == "SelectorError"),
                note=f"raised {exc_name(r) if st == 'raise' else None} string=a,b ||")
    else:
        c.prove("_select/returns-Call", st == "ok" and r.cls.name == "Call")
        if kind == "element":
            c.prove("_select/bare-element-becomes-focus-of-wildcard-call", r.fields["element"].fields["name"] is None and len(r.fields["captures"]) == 1
                    and 1 in r.fields["captures"][0].fields["tags"])
    Token = it.get_global(OP, "Token")
    node = it.call(Token, [">", "OPERATOR", "(a,b) > c", 6, 7], {})
    st, r = run(it, it.get_global(S, "_guarantee_call"), [val], dict(context="root", node=node))
    if kind == "list":
        c.prove("_guarantee_call/list-refused-cleanly", st == "raise" and (isinstance(r, SyntaxError) or exc_name(r) == "SelectorError"),
                note=f"raised {exc_name(r) if st == 'raise' else None} string=(a,b) > c ||")
    else:
        c.prove("_guarantee_call/returns-Call", st == "ok" and r.cls.name == "Call")
    # a second-focus mark on the FUNCTION position (!!f(x)) is a second focus without a first: refused, with the position
    Element = it.get_global(S, "Element")
    marked = it.call(Element, [], dict(name="f", capture="f", tags=frozenset({2})))
    st, r = run(it, it.get_global(S, "_guarantee_call"), [marked], dict(context="root", node=node))
    c.prove("_guarantee_call/second-focus-on-the-function-refused", st == "raise" and isinstance(r, SyntaxError) and getattr(r, "offset", None) == 7,
            note=f"{st} {r!r} string=!!f(x) ||")


# ---------------------------------------------------------------------------------------------
# Call.problems / verify (refusal at activation)
# ---------------------------------------------------------------------------------------------
VALID = ("#enter", "#error", "#exit", "#receive", "#value", "#yield")


def _replay_problems(o):
    m = o.get("model") or {}
    nm = (m.get("name") or "").strip('"')
    if not nm or "\\u" in nm or not all(ch.isalnum() or ch in "#_." for ch in nm):
        nm_list = ["#values", "#value_", "#enterx", "#loop", "#what", "zz", "a.b", "#loop_i", "#value"]
    else:
        nm_list = [nm]
    return f'''
import sys
sys.path.insert(0, __import__("os").environ.get("PVC_REPO", "/repo"))
from ptera import probing
from ptera.selector import SelectorError
VALID = ("#enter", "#error", "#exit", "#receive", "#value", "#yield")
def f(a):
    b = a
    return b
bad = []
for nm in {nm_list!r}:
    should_refuse = (nm.startswith("#") and not nm.startswith(("#loop_", "#endloop_")) and nm not in VALID) or (not nm.startswith("#") and nm.split(".")[0] not in ("a", "b"))
    try:
        with probing("f > " + nm, env={{"f": f}}):
            refused = False
    except SelectorError:
        refused = True
    if refused != should_refuse:
        bad.append((nm, "refused" if refused else "accepted", "should be " + ("refused" if should_refuse else "accepted")))
print(bad or "ok")
sys.exit(1 if bad else 0)
'''


@unit("problems", ["C18", "C10", "C11"], [S + ":Call.problems", S + ":verify", S + ":check_element"], replay=_replay_problems)
def u_problems(c):
    """For a capture with ANY name (symbolic string): a problem is reported iff it is a #name that is neither one of the six
    documented meta-variables nor a #loop_/#endloop_ name, or a plain name whose base (before the first dot) is not in the
    function's variable table, or whose recorded annotation does not match the capture's category; verify raises SelectorError
    iff there is a problem; wildcard or untooled functions are refused."""
    it = Interp(c)
    Element = it.get_global(S, "Element")
    name = c.str("name")
    c.assume(z3.Length(name.t) > 0)
    ce = z3.Function("pb_check_element", z3.StringSort(), z3.BoolSort())

    def ce_pol(it_, f, a, k):
        return concretize(SBool(ce(it_.to_val(a[1]).arg(0) if False else (a[1].t if isinstance(a[1], Sym) else z3.StringVal(a[1])))))

    it.policies[S + ":check_element"] = ce_pol
    fkind = c.choose(3, "function")

    class _Table(dict):
        """The table transform() makes: a dictionary that also knows which of the variables are targets of a for loop."""
        loopvars = frozenset({"a"})

    info = _Table({"a": {"annotation": "ann_a"}, "b": {"annotation": "ann_b"}})
    if fkind == 0:
        func = None
    elif fkind == 1:
        func = SymObj("untooled", Val.ref(z3.IntVal(c.new_id())), attrs={}, closed=True)
    else:
        func = SymObj("fn", Val.ref(z3.IntVal(c.new_id())), attrs={"__ptera_info__": info}, closed=True)
    cap = mk_obj(it, S, "Element", name=name, value=it.models.absent(it), category=None, capture=name, tags=frozenset())
    sel = mk_obj(it, S, "Call", element=mk_obj(it, S, "Element", name=func, value=None, category=None, capture=None, tags=frozenset()),
                 captures=(cap,), children=(), immediate=False)
    st, probs = run(it, it.getattr(sel, "problems"), [])
    c.prove("problems/no-raise", st == "ok")
    if st != "ok":
        return
    n = len(probs)
    if fkind < 2:
        c.prove("problems/wildcard-or-untooled-function-refused", n == 1)
    else:
        t = name.t
        is_hash = z3.PrefixOf(z3.StringVal("#"), t)
        is_loop = z3.Or(z3.PrefixOf(z3.StringVal("#loop_"), t), z3.PrefixOf(z3.StringVal("#endloop_"), t))
        valid = z3.Or(*[t == z3.StringVal(v) for v in VALID])
        from pvc.models import _split_head
        base = _split_head(t, z3.StringVal("."))
        in_table = z3.Or(base == z3.StringVal("a"), base == z3.StringVal("b"))
        # a loop marker is named after the loop variable: #loop_<v> / #endloop_<v> for a name that is not a variable of the function is
        # not one of the documented meta-variables of THAT function (it could never fire)
        is_begin = z3.PrefixOf(z3.StringVal("#loop_"), t)
        suffix = z3.If(is_begin, z3.SubString(t, 6, z3.Length(t) - 6), z3.SubString(t, 9, z3.Length(t) - 9))
        # (... and b, a variable of the function that no loop binds, has no loop markers either)
        loop_ok = suffix == z3.StringVal("a")
        # a dotted path names a variable and attributes of it: `a.` or `a..b` name nothing (such a capture could never fire)
        empty_part = z3.Or(z3.SuffixOf(z3.StringVal("."), t), z3.Contains(t, z3.StringVal("..")))
        bad = z3.If(is_loop, z3.Not(loop_ok), z3.If(is_hash, z3.Not(valid), z3.Or(z3.Not(in_table), empty_part, z3.Not(ce(t)))))
        c.prove("problems/reported-iff-unknown-meta-variable-or-missing-variable-or-category-mismatch", z3.And(n <= 1, (n == 1) == bad) if True else False)
    st, r = run(it, it.get_global(S, "verify"), [sel])
    c.prove("verify/SelectorError-iff-problems", (st == "raise" and exc_name(r) == "SelectorError") if n else (st == "ok" and r is sel))


@unit("probe-construction-real-selectors", ["C18"], [P + ":Probe._make_emitter", P + ":Probe._make_rule", S + ":Call.focus", S + ":Call.all_tags", S + ":Element.focus"],
      mode="bounded", bound="four focus patterns compiled by the real parser x three probe types")
def u_probe_construction_real(c):
    """The refusal of a second-focus mark without a first holds for REAL compiled selectors (whose focus / all_tags are cached
    properties of an interned object: reading one must not change what the other reports), whatever the probe type."""
    it = Interp(c)
    from contracts.lifecycle import _giving_hooks

    _giving_hooks(it)
    texts = [("f(x)", set()), ("f(!x)", {1}), ("f(!x, !!y)", {1, 2}), ("f(!!x)", {2}), ("f(x, !!y)", {2})]
    text, tags = texts[c.choose(len(texts), "selector")]
    ptype = [None, "immediate", "total"][c.choose(3, "probe_type")]
    sel = _compile(it, text, {})
    prb = Obj(it.get_global(P, "Probe"), c.new_id())
    st, r = run(it, it.getattr(prb, "_make_rule"), [sel, ptype])
    if tags == {2}:
        c.prove("second-focus-without-a-first/refused-with-ValueError", st == "raise" and isinstance(r, ValueError), note=f"{text} probe_type={ptype}: {st} {r!r}")
    elif tags == {1, 2} and ptype == "total":
        c.prove("two-focuses-with-a-total-rule/refused", st == "raise" and isinstance(r, ValueError), note=f"{text}: {st}")
    else:
        c.prove("accepted", st == "ok", note=f"{text} probe_type={ptype}: {st} {r!r}")


@unit("probe-construction", ["C18", "C04"], [P + ":Probe._make_emitter", P + ":Probe._make_rule", P + ":OverridableProbe._make_rule"])
def u_probe_construction(c):
    """Refusal at probe construction: a second-focus mark (!!) without a first (!) -> ValueError('Unsupported focus pattern');
    an overridable probe without a focus (or forced total) -> refused; otherwise Immediate (focus) or Total (no focus)."""
    it = Interp(c)
    from contracts.lifecycle import _giving_hooks

    _giving_hooks(it)
    tagsets = [set(), {1}, {1, 2}, {2}, {1, 3}]
    tags = tagsets[c.choose(len(tagsets), "tags")]
    focus = 1 in tags
    ptype = [None, "immediate", "total"][c.choose(3, "probe_type")]
    overridable = bool(c.choose(2, "overridable"))
    sel = SymObj("sel", Val.ref(z3.IntVal(c.new_id())), attrs={"all_tags": {t: set() for t in tags}, "focus": focus, "hasval": False, "all_captures": set()})
    cls = it.get_global(P, "OverridableProbe" if overridable else "Probe")
    prb = Obj(cls, c.new_id())
    st, r = run(it, it.getattr(prb, "_make_rule"), [sel, ptype])
    want_immediate = ptype != "total" and (focus or ptype == "immediate")
    bad_tags = not (not tags or tags == {1} or tags == {1, 2})
    if overridable and (not focus or ptype == "total"):
        # from the property: no focus where overriding requires one is refused at construction (whatever probe_type says), rather
        # than accepted and silently never applied
        c.prove("overridable/needs-immediate-focus", st == "raise", note=f"tags={sorted(tags)} probe_type={ptype}: {st}")
    elif bad_tags:
        c.prove("focus-pattern/refused-with-ValueError", st == "raise" and isinstance(r, ValueError))
    elif tags == {1, 2} and not want_immediate:
        # a begin/end selector (!x, !!y) reports through the accumulator and the element that fired, which a total rule does not
        # have: accepted, it fails with an AttributeError when the first call ends -- it must be refused at construction
        c.prove("focus-pattern/two-focuses-with-a-total-rule-refused", st == "raise" and isinstance(r, ValueError), note=f"{st} {r!r}")
    else:
        c.prove("rule/no-raise", st == "ok")
        if st == "ok":
            c.prove("rule/kind", r.cls.name == ("Immediate" if want_immediate else "Total"))
            em = r.fields["_intercept" if overridable else ("_trigger" if want_immediate else "_close")]
            c.prove("rule/emitter", isinstance(em, BoundV) and em.func.name == ("_emit2" if tags == {1, 2} else "_emit"))


# ---------------------------------------------------------------------------------------------
# C15: documented notations are interchangeable (real lexer + Parser.process + evaluator on token skeletons)
# ---------------------------------------------------------------------------------------------
def _replay_equiv(o):
    note = o.get("note") or ""
    import re as _re
    m = _re.search(r"'([^']*)' vs '([^']*)'", note) or _re.search(r"'([^']*)': \w+ .* / '([^']*)':", note)
    if not m:
        return None
    lhs, rhs = m.group(1), m.group(2)
    return f'''
import sys
sys.path.insert(0, __import__("os").environ.get("PVC_REPO", "/repo"))
from ptera.selector import parse
def comp(s):
    try:
        return parse(s)
    except SyntaxError as e:
        return "SyntaxError"
l, r = comp({lhs!r}), comp({rhs!r})
print(repr({lhs!r}), "->", l)
print(repr({rhs!r}), "->", r)
sys.exit(0 if l is r or (l == r == "SyntaxError") else 1)
'''


EQUIV = [
    # (lhs, rhs, focus word)
    ("f > X", "f(!X)", "x"),
    ("f(A) > X", "f(A, !X)", "x"),
    ("a > b > X", "a > (b > X)", "x"),
    ("a > b > X", "a(b(!X))", "x"),
    ("f() as r", "f(!#value as r)", "#value"),
    ("g > f() as r", "g > f(!#value as r)", "#value"),
    ("h(A) > g > f() as r", "h(A) > g > f(!#value as r)", "#value"),
    ("g > (f() as r)", "g(f(!#value as r))", "#value"),
    ("g > f(A) as r", "g > f(A, !#value as r)", "#value"),
    ("$xD", "* as xD", None),
    ("f > $xD", "f > * as xD", None),
    ("f($xD) > y", "f(* as xD) > y", None),
    ("f(A, $xD)", "f(A, * as xD)", None),
    ("f(A)=cc", "f(A, #value=cc)", None),
    # the focus may stand in ANY of the nested calls of a call, not only in the last one
    ("a(b > X, d(e))", "a(b(!X), d(e))", "x"),
    ("a(b(j), d(!X), g(h))", "a(b(j), d > X, g(h))", "x"),
    # the two spellings of a generic capture stay the same thing when they carry the focus mark
    ("f > $xD", "f(!* as xD)", "$x"),
    ("f(A, !$xD)", "f(A, !* as xD)", "$x"),
    ("f(A) > g(B) > X", "f(A, g(B, !X))", "x"),
    ("f(a~g(k=1)) > X", "f(a ~ g( k = 1 )) > X", "x"),
    ("f(a=g(1, k=2))", "f(a = g(1,k=2))", None),
    ("(f() as r)=cc", "f(!#value as r, #value=cc)", "#value"),
    ("(f(A) as r)=cc", "f(A, !#value as r, #value=cc)", "#value"),
    # the function position may hold the generic function `*` in every law (f, a, b stand for ANY function)
    ("* > X", "*(!X)", "x"),
    ("*(A) > X", "*(A, !X)", "x"),
    ("* > b > X", "*(b(!X))", "x"),
    ("a > * > X", "a(*(!X))", "x"),
    ("* > f() as r", "* > f(!#value as r)", "#value"),
    ("* > (f() as r)", "*(f(!#value as r))", "#value"),
]
FOCUS_FORMS = ["x", "x:@T", "x as y", "x:@T as y", "*", "#value", "$x", "x=1", "* as x", "* as x:@T"]
# (the last one constrains the very variable that is the focus of several laws: `f(x=1) > x` keeps the condition)
CONTEXT_FORMS = ["a", "a:@T", "a as z", "a=1", "$q", "#enter", "a, k", "h(j)", "#value", "!#value as z", "#value as z, a", "x=1"]
RESERVED = {"as"}


def _is_placeholder(w):
    return w.isalpha() and w not in RESERVED and w != "T"


def _compile(it, text, syms):
    """Lex `text` with the real lexer, replace identifier words by symbolic names, parse and evaluate with the real code."""
    c = it.ctx
    parser = it.get_global(S, "parser")
    toks = it.call(it.getattr(parser, "lexer"), [text], {})
    for t in toks:
        v = t.fields["value"]
        if t.fields["type"] == "WORD" and isinstance(v, str) and _is_placeholder(v):
            syms[v] = v  # operand names are concrete representatives (interning over symbolic names: unit 'interning')
    tree = it.call(it.getattr(parser, "process"), [toks], {})
    return it.call(it.get_global(S, "evaluate"), [tree], {})


_EQUIV_TARGETS = ([S + ":" + a for a in sorted({v[0] for v in ACTIONS.values()})] +
      [S + ":make_symbol", S + ":_guarantee_call", S + ":Evaluator.__call__", S + ":InternedMC.__call__", S + ":Element.clone", S + ":Element.with_focus",
       S + ":Element.without_focus", S + ":Call.clone", OP + ":Parser.process", OP + ":Parser.finalize", OP + ":OperatorPrecedenceTower.resolve",
       OP + ":OperatorPrecedenceTower.__call__", OP + ":ASTNode.__init__", OP + ":Lexer.__call__", OP + ":Token.__init__"])
_EQUIV_GROUPS = 6


def _equivalences(c, group, ngroups):
    """Each documented pair of spellings compiles to THE SAME selector object, for symbolic operand names and for every
    operand form of a small grammar (names, tags, aliases, values, generic captures, meta-variables, sequences, nested
    calls); the focus is the variable marked with ! or standing after the last >."""
    it = Interp(c)
    k = c.choose(len(EQUIV), "law")
    lhs, rhs, focus = EQUIV[k]
    subs = {}
    if "X" in lhs:
        subs["X"] = FOCUS_FORMS[c.choose(len(FOCUS_FORMS), "focus-form")]
    aidx = 0
    if "A" in lhs:
        aidx = c.choose(len(CONTEXT_FORMS), "context-form")
        subs["A"] = CONTEXT_FORMS[aidx]
        if focus is not None:
            subs["A"] = subs["A"].replace("!", "")  # the law already marks a focus: a second mark is outside the documented equations
    if (k + 5 * aidx) % ngroups != group:
        return  # this (law, context form) pair belongs to another of the parallel units
    if "D" in lhs:
        subs["D"] = ["", ":@T", "=1", ":@T=1", " "][c.choose(5, "decoration")]
    if "B" in lhs:
        subs["B"] = CONTEXT_FORMS[c.choose(3, "context-form-2")].replace("a", "bb").replace("z", "zz")
    for kk, v in subs.items():
        lhs, rhs = lhs.replace(kk, v), rhs.replace(kk, v)
    if subs.get("X") in ("$x", "x=1") and "!" in rhs:
        pass
    syms = {}
    st1, l = run(it, SummaryFn("compile", lambda it_, a, kw: _compile(it_, lhs, syms)), [])
    st2, r = run(it, SummaryFn("compile", lambda it_, a, kw: _compile(it_, rhs, syms)), [])
    label = f"law{k}"
    if st1 != "ok" or st2 != "ok":
        # a pair that one spelling refuses must be refused by the other as well (with a syntax error)
        c.prove(f"{label}/both-spellings-refused-alike", st1 == st2 and isinstance(l, SyntaxError) and isinstance(r, SyntaxError),
                note=f"{lhs!r}: {st1} {l!r} / {rhs!r}: {st2} {r!r}")
        return
    c.prove(f"{label}/same-selector-object", l is r, note=f"{lhs!r} vs {rhs!r}")
    if focus is not None and isinstance(l, Obj):
        main = it.getattr(l, "main")
        nm = None if main is None else main.fields["name"]
        fx = subs.get("X", focus)
        if fx in ("x", "x:@T", "x as y", "x:@T as y", "x=1"):
            want = syms.get("x")
            c.prove(f"{label}/focus-is-the-marked-variable", main is not None and nm == want and 1 in main.fields["tags"], note=f"{lhs!r}")
        elif fx == "#value":
            c.prove(f"{label}/focus-is-the-marked-variable", main is not None and nm == "#value" and 1 in main.fields["tags"], note=f"{lhs!r}")
        elif fx in ("*", "$x", "* as x", "* as x:@T"):
            c.prove(f"{label}/focus-is-the-marked-variable", main is not None and nm is None and 1 in main.fields["tags"], note=f"{lhs!r}")


def _mk_equivalences(group):
    # the laws are split over several units (the pair (law k, context form a) goes to unit (k + 5a) mod 6) so that they are explored in parallel: one process for all of
    # them needed most of the wall budget of the quick tier when the machine is busy
    @unit("equivalences" if group == 0 else f"equivalences-{group}", ["C15"], _EQUIV_TARGETS,
          assumed=["operand names are concrete representatives (the actions never inspect a name except for '*'; interning for symbolic names is the unit 'interning'); re.match executed natively"],
          max_paths=6000, replay=_replay_equiv)
    def u(c):
        return _equivalences(c, group, _EQUIV_GROUPS)
    u.__doc__ = _equivalences.__doc__
    return u


for _g in range(_EQUIV_GROUPS):
    _mk_equivalences(_g)


@unit("interning", ["C15", "C13", "C18"], [S + ":InternedMC.__call__", S + ":Element.__init__", S + ":Call.__init__"])
def u_interning(c):
    """Compiled selectors that are structurally equal are the same object: two constructions return the same object iff
    all their fields are equal (defaults filled in, keyword order irrelevant); the field values end up in a dictionary key,
    so they must be hashable."""
    it = Interp(c)
    Element = it.get_global(S, "Element")
    Call = it.get_global(S, "Call")
    n1, n2 = c.str("n1"), c.str("n2")
    c1 = [None, "k"][c.choose(2)]
    c2 = [None, "k"][c.choose(2)]
    e1 = it.call(Element, [], dict(name=n1, capture=c1))
    e2 = it.call(Element, [], dict(capture=c2, name=n2))
    same = z3.And(n1.t == n2.t, c1 == c2)
    c.prove("element/same-object-iff-equal-fields", same if e1 is e2 else z3.Not(same))
    c.prove("element/defaults", e1.fields["value"] is it.models.absent(it) and e1.fields["category"] is None and e1.fields["tags"] == frozenset())
    e3 = it.call(it.getattr(e1, "clone"), [], {})
    c.prove("element/clone-without-changes-is-self", e3 is e1)
    k1 = it.call(Call, [], dict(element=e1, captures=(e2,)))
    k2 = it.call(Call, [], dict(captures=(e2,), element=e1, immediate=False, children=()))
    c.prove("call/same-object-for-equal-fields", k1 is k2)
    k3 = it.call(Call, [], dict(element=e1, captures=(e2,), immediate=True))
    c.prove("call/different-field-different-object", k3 is not k1)
    # a predicate condition (x~g) wraps the resolved function: the same function gives the same selector object
    MF = it.get_global(S, "MatchFunction")
    g1, g2 = SymObj("g1", Val.ref(z3.IntVal(c.new_id()))), SymObj("g2", Val.ref(z3.IntVal(c.new_id())))
    p1 = it.call(Element, [], dict(name="x", capture="x", value=it.call(MF, [g1], {})))
    p2 = it.call(Element, [], dict(name="x", capture="x", value=it.call(MF, [g1], {})))
    p3 = it.call(Element, [], dict(name="x", capture="x", value=it.call(MF, [g2], {})))
    c.prove("element/predicate-conditions-on-the-same-function-are-the-same-object", p1 is p2 and p3 is not p1, only=["C15"])
    # "the same function" is what Python calls equal: a bound method looked up twice (x~checker.ok evaluated at each compilation) gives two
    # method objects that are equal and not identical -- the same predicate, hence the same selector
    class _Checker:
        def ok(self, v):
            return True

    ck = _Checker()
    m1, m2 = ck.ok, ck.ok
    q1 = it.call(Element, [], dict(name="x", capture="x", value=it.call(MF, [m1], {})))
    q2 = it.call(Element, [], dict(name="x", capture="x", value=it.call(MF, [m2], {})))
    q3 = it.call(Element, [], dict(name="x", capture="x", value=it.call(MF, [_Checker().ok], {})))
    c.prove("element/predicate-given-as-a-bound-method-looked-up-twice-is-the-same-selector", m1 is not m2 and q1 is q2 and q3 is not q1, only=["C15"])
    # a value to compare a variable with may be any object the environment provides, including one that cannot be hashed (a list):
    # compiling such a selector must not fail with an internal TypeError
    st, e5 = run(it, Element, [], dict(name="x", capture="x", value=[1, 2]))
    c.prove("element/unhashable-value-accepted", st == "ok" and isinstance(e5, Obj) and e5.fields["value"] == [1, 2], note=f"{st} {e5!r}", only=["C18"])


@unit("_resolve-element", ["C18", "C11"], [S + ":_resolve", S + ":_eval", S + ":Element.clone"])
def u_resolve_element(c):
    """Resolution of one element: a category that is given (not None) and is not a Tag -- whatever its value, including 0,
    '' and other falsy values -- is refused with the documented TypeError; None and tags are accepted; an element without
    capture name gets a fresh /<n> capture."""
    it = Interp(c)
    Element = it.get_global(S, "Element")
    k = c.choose(3, "category")
    if k == 0:
        cat = None
    elif k == 1:
        cat = it.getattr(it.get_global("ptera.tags", "tag"), "T")
    else:
        cat = c.val("category")  # any non-tag value: ints (0 included), strings ('' included), booleans, user objects
        c.assume(z3.And(z3.Not(Val.is_none(cat.t)), z3.Not(Val.is_ref(cat.t)), z3.Not(Val.is_absent(cat.t))))
    capname = [None, "x"][c.choose(2, "capture")]
    el = mk_obj(it, S, "Element", name="x", value=it.models.absent(it), category=cat, capture=capname, tags=frozenset())
    # interning with a symbolic category would fork on every cached key: the clone is observed through a ghost call
    cloned = []

    def clone(it_, f, a, k_):
        cloned.append(dict(k_))
        return a[0]

    it.policies[S + ":Element.clone"] = clone
    st, r = run(it, it.get_global(S, "_resolve"), [el, {}, iter(range(7, 100))])
    if k == 2:
        c.prove("non-tag-category/TypeError-for-every-value", st == "raise" and isinstance(r, TypeError), note="category given but not a Tag")
    else:
        c.prove("tag-or-none/accepted", st == "ok" and len(cloned) == 1 and cloned[0]["category"] is cat)
        if st == "ok":
            c.prove("capture/fresh-name-iff-none", cloned[0]["capture"] == ("/7" if capname is None else capname))


CONDITION_TEXTS = [
    # (selector text, number of conditions written in it)
    ("f(x=1) > y", 1), ("f > x=1", 1), ("f(a=1, b=2) > x", 2), ("f(x=1) > g(x=2) > y", 2), ("f(x~p) > y", 1), ("f(#value=1, a) > x", 1),
    # the constrained variable may also be the focus, written again after `>`: the condition stays (it is what restricts the events)
    ("f(x=1) > x", 1), ("f(x~p) > x", 1), ("f(x=1, total) > x", 1), ("g > f(x=1) > x", 1), ("f(x as a=1) > x", 1),
]


@unit("conditions-kept", ["C12", "C04", "C15"], [S + ":make_nested_imm", S + ":make_call_capture", S + ":make_equals", S + ":make_matchfn", S + ":Call.hasval"],
      mode="bounded", bound=f"{len(CONDITION_TEXTS)} selector texts with conditions in the call's parentheses, on the focus, in two calls, on the variable that is also the focus")
def u_conditions_kept(c):
    """Every condition written in a selector (name=value, name~predicate) is an element of the compiled selector -- none is dropped or
    merged away -- and the selector knows that it has conditions (hasval), which is what makes the accumulators filter."""
    it = Interp(c)
    text, n = CONDITION_TEXTS[c.choose(len(CONDITION_TEXTS), "text")]
    st, sel = run(it, SummaryFn("compile", lambda it_, a, kw: _compile(it_, text, {})), [])
    c.prove("compiles", st == "ok" and isinstance(sel, Obj), note=f"{text!r}: {st} {sel!r}")
    if st != "ok" or not isinstance(sel, Obj):
        return
    absent = it.models.absent(it)
    todo, valued = [sel], []
    while todo:
        x = todo.pop()
        if x.cls.name == "Call":
            todo += [x.fields["element"], *x.fields["captures"], *x.fields["children"]]
        elif x.fields.get("value", absent) is not absent:
            valued.append(x)
    c.prove("every-condition-written-is-in-the-compiled-selector", len(valued) == n, note=f"{text!r}: {len(valued)} conditions kept, {n} written")
    c.prove("the-selector-knows-it-has-conditions", it.truth(it.getattr(sel, "hasval")), note=text)
