"""C13 (method selectors) and C14 (absolute references): _resolve / _dig / receiver constraint; refstring, dict_resolver
slash branch, codefind.CodeRegistry.update_cache_entry / find_code (interpreted from the installed codefind/registry.py)."""
import collections

import z3

from pvc.units import (unit, mk_obj, term_of, run, callback, calls_of, LoopSpec, Interp, PyRaise, SymObj,
                       SymSeq, SummaryFn, Obj, Sym, SInt, SBool, SStr, SVal, Val, concretize, exc_name)
from pvc.values import FuncV, ClassV, BoundV
import types

S = "ptera.selector"
U = "ptera.utils"
CF = "codefind.registry"


def _fn_obj(c, name, tooled=False, wrapped=None, extra=None):
    attrs = {"__name__": name}
    if tooled:
        attrs["__ptera_info__"] = {}
    if wrapped is not None:
        attrs["__wrapped__"] = wrapped
    attrs.update(extra or {})
    o = SymObj(name, Val.ref(z3.IntVal(c.new_id())), attrs=attrs, closed=True)
    o.attrs["__isinstance__"] = lambda it, v, cls: cls in (types.FunctionType, object)
    return o


@unit("_dig", ["C13", "C14", "C10"], [S + ":_dig", U + ":is_tooled"], mode="bounded", bound="decorator chains (__wrapped__) of length <= 3, optional property at the end")
def u_dig(c):
    """_dig follows __wrapped__ until it reaches a tooled function or the end of the chain, then property.fget; terminates."""
    it = Interp(c)
    depth = c.choose(4, "depth")
    tooled_at = c.choose(depth + 2, "tooled-at") - 1  # -1: none
    chain = []
    inner = None
    for d in range(depth, -1, -1):
        f = _fn_obj(c, f"f{d}", tooled=(d == tooled_at), wrapped=inner)
        chain.insert(0, f)
        inner = f
    outer = chain[0]
    st, r = run(it, it.get_global(S, "_dig"), [outer])
    c.prove("no-raise", st == "ok")
    want = chain[tooled_at] if 0 <= tooled_at <= depth else chain[-1]
    c.prove("reaches-first-tooled-or-innermost", r is want)
    # through a property
    prop = property(lambda self: None)
    fget = _fn_obj(c, "getter")
    it.native_attr = None
    pobj = SymObj("property", Val.ref(z3.IntVal(c.new_id())), attrs={"fget": fget}, closed=True)
    pobj.attrs["__isinstance__"] = lambda it_, v, cls: cls in (property, object)
    st, r = run(it, it.get_global(S, "_dig"), [pobj])
    c.prove("property/fget", st == "ok" and r is fget)


def _bound_method(c, func, receiver):
    """A bound method: like CPython, attribute lookups not found on the method are forwarded to __func__."""
    attrs = {"__func__": func, "__self__": receiver}
    for k, v in func.attrs.items():
        if k.startswith("__") and k not in attrs and k not in ("__isinstance__",):
            attrs[k] = v
    o = SymObj("bound-method", Val.ref(z3.IntVal(c.new_id())), attrs=attrs, closed=True)
    o.attrs["__isinstance__"] = lambda it, v, cls: cls in (types.MethodType, object)
    return o


@unit("_resolve-method", ["C13", "C15", "C18"], [S + ":_resolve", S + ":_dig", S + ":_eval", S + ":Element.clone", S + ":Call.clone", S + ":InternedMC.__call__"],
      assumed=["inspect.getfullargspec(f).args[0] is the name of the first parameter", "a bound method forwards unknown attribute lookups to __func__ (CPython)"])
def u_resolve_method(c):
    """obj.meth > v: the compiled selector's function is the function underlying the method (through decorators that record
    __wrapped__), and it has one extra capture named after the method's first parameter whose value constraint is the
    receiver; Cls.meth > v has no receiver constraint; select() does not raise for ANY receiver."""
    it = Interp(c)
    Element = it.get_global(S, "Element")
    Call = it.get_global(S, "Call")
    decorated = bool(c.choose(2, "decorated"))
    inner = _fn_obj(c, "meth_inner")
    func = _fn_obj(c, "meth", wrapped=inner) if decorated else inner
    selfname = ["self", "this", None][c.choose(3, "selfname")]  # None: def m(*args) -- the receiver has no named parameter
    spec = SymObj("argspec", Val.ref(z3.IntVal(-9)), attrs={"args": [selfname, "v"] if selfname else []}, closed=True)
    inspect_ns = SymObj("inspect", Val.ref(z3.IntVal(-10)), attrs={"getfullargspec": SummaryFn("getfullargspec", lambda it_, a, k: spec)})
    it.module_env(S).vars["inspect"] = inspect_ns
    through_object = bool(c.choose(2, "through-object"))
    receiver = c.val("receiver")
    target = _bound_method(c, func, receiver) if through_object else func
    it.val_callable = lambda v: False
    cap = it.call(Element, [], dict(name="v", capture="v", tags=frozenset({1})))
    sel = it.call(Call, [], dict(element=it.call(Element, [], dict(name=target)), captures=(cap,)))
    cnt = iter(range(100))
    st, r = run(it, it.get_global(S, "_resolve"), [sel, {}, iter(range(100))])
    if selfname is None and through_object:
        # the receiver of such a method cannot be captured: the selector is refused with a selector error, not an IndexError (C18)
        c.prove("method-without-a-named-receiver/refused-with-a-selector-error", st == "raise" and exc_name(r) == "SelectorError", note=f"{st} {exc_name(r) if st == 'raise' else r!r}",
                only=["C13", "C18"])
        return
    if st != "ok":
        c.prove("select-does-not-raise-for-any-receiver", False, note=f"raised {exc_name(r)}: {r!r}")
        return
    c.prove("select-does-not-raise-for-any-receiver", True)
    c.prove("function-is-the-underlying-function", r.fields["element"].fields["name"] is inner)
    # compiled selectors that are structurally equal are the same object: the same method of the same receiver, compiled again
    st_a, r_again = run(it, it.get_global(S, "_resolve"), [sel, {}, iter(range(100))])
    c.prove("compiled-again/same-selector-object", st_a == "ok" and r_again is r, only=["C15"])
    caps = r.fields["captures"]
    if through_object:
        ok = len(caps) == 2 and caps[0].fields["name"] == "v"
        c.prove("receiver-capture-added-after-own-captures", ok)
        if ok:
            rc = caps[1]
            c.prove("receiver-capture-named-after-first-parameter", rc.fields["name"] == selfname and rc.fields["capture"] == selfname)
            # the constraint admits a call iff its receiver IS the object (identity), whatever kind of object it is
            x = c.val("x")
            c.assume(z3.And(z3.Not(Val.is_ref(x.t)), z3.Not(Val.is_ref(receiver.t))))
            sel2 = mk_obj(it, S, "Call", all_values=[rc])
            caps2 = {selfname: mk_obj(it, "ptera.interpret", "Capture", values=[x])}
            st, ok2 = run(it, it.getattr(sel2, "check_captures"), [caps2])
            c.prove("receiver-constraint/no-raise", st == "ok")
            c.prove("receiver-constraint/accepts-iff-receiver-is-the-object(identity)", st == "ok" and term_of(it, ok2) == (x.t == receiver.t))
            # a SECOND object of the population, distinct from the first but possibly equal to it (==, same hash), selected
            # afterwards through the same method: its constraint must admit exactly ITS calls
            r2 = c.val("receiver2")
            c.assume(z3.And(z3.Not(Val.is_ref(r2.t)), r2.t != receiver.t))
            target2 = _bound_method(c, func, r2)
            sel_b = it.call(Call, [], dict(element=it.call(Element, [], dict(name=target2)), captures=(cap,)))
            stb, rb = run(it, it.get_global(S, "_resolve"), [sel_b, {}, cnt])
            c.prove("second-object/select-does-not-raise", stb == "ok")
            if stb == "ok" and len(rb.fields["captures"]) == 2:
                rcb = rb.fields["captures"][1]
                sel3 = mk_obj(it, S, "Call", all_values=[rcb])
                st, ok3 = run(it, it.getattr(sel3, "check_captures"), [{selfname: mk_obj(it, "ptera.interpret", "Capture", values=[x])}])
                c.prove("second-object/constraint-admits-exactly-its-own-receiver", st == "ok" and term_of(it, ok3) == (x.t == r2.t))
    else:
        c.prove("class-selector-has-no-receiver-constraint", len(caps) == 1 and caps[0].fields["name"] == "v")


# ---------------------------------------------------------------------------------------------
# C14
# ---------------------------------------------------------------------------------------------
PLACEMENTS = [
    ("module-level", "mod", "f", "/mod/f"),
    ("main-module", "__main__", "f", "//f"),
    ("method", "pkg.mod", "A.m", "/pkg.mod/A/m"),
    ("nested-class-method", "mod", "A.B.m", "/mod/A/B/m"),
    ("nested-function", "mod", "outer.<locals>.inner", "/mod/outer/inner"),
    ("method-of-local-class", "mod", "outer.<locals>.K.m", "/mod/outer/K/m"),
    ("two-functions-deep", "mod", "outer.<locals>.middle.<locals>.inner", "/mod/outer/middle/inner"),
    ("method-of-a-class-two-functions-deep", "mod", "factory.<locals>.build.<locals>.Widget.meth", "/mod/factory/build/Widget/meth"),
]


@unit("refstring", ["C14"], [U + ":refstring", U + ":_extract_info", U + ":_build_refstring", U + ":_verify_existence"], mode="bounded",
      bound="the placements listed in PLACEMENTS (module-level, __main__, method, nested class, nested function, local class)")
def u_refstring(c):
    """refstring(fn) = '/' + module ('' for __main__) + '/' + the qualified name without <locals>, joined by '/'; it is
    returned only if codefind can find code under that path, otherwise CodeNotFoundError."""
    it = Interp(c)
    k = c.choose(len(PLACEMENTS), "placement")
    label, module, qual, want = PLACEMENTS[k]
    exists = bool(c.choose(2, "exists"))
    calls = []

    def find_code(it_, a, kw):
        calls.append((a, kw))
        if not exists:
            raise PyRaise(KeyError(a))
        return SymObj("code", Val.ref(z3.IntVal(0)))

    codefind = SymObj("codefind", Val.ref(z3.IntVal(-11)), attrs={"find_code": SummaryFn("find_code", find_code)})
    it.import_hook = lambda m, n: codefind if (m, n) == ("codefind", None) else None
    fn = _fn_obj(c, "fn", extra={"__module__": module, "__qualname__": qual})
    fn.attrs["__isinstance__"] = lambda it_, v, cls: cls in (types.FunctionType, object)
    st, r = run(it, it.get_global(U, "refstring"), [fn])
    path = [p for p in qual.split(".") if p != "<locals>"]
    if exists:
        c.prove(f"{label}/reference-string", st == "ok" and r == want, note=str(r))
    else:
        c.prove(f"{label}/CodeNotFoundError-when-not-registered", st == "raise" and exc_name(r) == "CodeNotFoundError")
    c.prove(f"{label}/existence-checked-under-module-and-path", len(calls) == 1 and list(calls[0][0]) == path and calls[0][1] == {"module": module})


@unit("resolve-reference", ["C14", "C18"], [S + ":dict_resolver"], mode="bounded", bound="references with <= 3 path components; 0..2 live functions sharing the code object")
def u_resolve_reference(c):
    """Resolving '/module/a/b': codefind.find_code('a','b', module=module or '__main__'); among the live function objects with
    that code, ptera's own private copies (__ptera_discard__) are ignored and exactly one must remain: that very function;
    a dotted component -> SelectorError; unknown path -> CodeNotFoundError."""
    it = Interp(c)
    refs = [("/mod/f", "mod", ["f"]), ("//f", "__main__", ["f"]), ("/pkg.mod/A/m", "pkg.mod", ["A", "m"]), ("/mod/a.b", None, None)]
    ref, module, hier = refs[c.choose(len(refs), "reference")]
    fkind = c.choose(3, "found")  # 0 found, 1 no such function in the module, 2 the module has no source file (a builtin module: /sys/exit)
    found = fkind == 0
    code = SymObj("code", Val.ref(z3.IntVal(c.new_id())))
    target = _fn_obj(c, "target")
    n_private = c.choose(3, "private-copies")
    n_live = [1, 0, 2][c.choose(3, "live-functions-with-that-code")]
    privates = [_fn_obj(c, f"private{i}", extra={"__ptera_discard__": True}) for i in range(n_private)]
    other_kind = SymObj("conformer", Val.ref(z3.IntVal(c.new_id())), attrs={}, closed=True)  # not a function: has __conform__
    other_kind.attrs["__isinstance__"] = lambda it_, v, cls: cls is object
    calls = []

    def find_code(it_, a, kw):
        calls.append((list(a), dict(kw)))
        if not found:
            raise PyRaise(KeyError(tuple(a)) if fkind == 1 else AttributeError("module 'sys' has no attribute '__file__'"))
        return code

    codefind = SymObj("codefind", Val.ref(z3.IntVal(-11)), attrs={
        "find_code": SummaryFn("find_code", find_code),
        "get_functions": SummaryFn("get_functions", lambda it_, a, kw: privates[:1] + ([target] if n_live >= 1 else []) + [other_kind]
                                   + ([_fn_obj(c, "second-live")] if n_live == 2 else []) + privates[1:])})
    it.import_hook = lambda m, n: codefind if (m, n) == ("codefind", None) else None
    isfn = lambda it_, a, kw: isinstance(a[0], SymObj) and a[0] is not other_kind
    it.module_env(S).vars["inspect"] = SymObj("inspect", Val.ref(z3.IntVal(-10)), attrs={"isfunction": SummaryFn("isfunction", isfn)})
    resolver = it.call(it.get_global(S, "dict_resolver"), [{}], {})
    st, r = run(it, resolver, [ref])
    if hier is None:
        c.prove("dotted-component/SelectorError", st == "raise" and exc_name(r) == "SelectorError" and calls == [])
        return
    c.prove("lookup/module-and-path", calls == [(hier, {"module": module})])
    if not found:
        c.prove("unknown/CodeNotFoundError", st == "raise" and exc_name(r) == "CodeNotFoundError")
    elif n_live != 1:
        # no live function (or several) for the code behind the reference: refused with the reference error, not a bare Exception
        c.prove("unresolvable-or-ambiguous/CodeNotFoundError", st == "raise" and exc_name(r) == "CodeNotFoundError", note=f"{st} {exc_name(r) if st == 'raise' else r!r}", only=["C18"])
    else:
        c.prove("resolves-to-that-very-function", st == "ok" and r is target, note=f"{st} {r!r}")


@unit("codefind.registry", ["C14"], [CF + ":CodeRegistry.__init__", CF + ":CodeRegistry._setcodepaths", CF + ":CodeRegistry.update_cache_entry",
                                     CF + ":CodeRegistry.find_code"],
      assumed=["importlib.import_module(module).__file__ is the file the code objects were compiled from"])
def u_registry(c):
    """Dependency under contract (installed codefind/registry.py): update_cache_entry(obj, old, new) re-points every path that
    led to `old` at `new` (and nothing else), so that find_code(path) keeps returning the code the function currently runs;
    RefInv: currcodes[path(fn)] == fn.__code__ is preserved by ptera's code swaps."""
    it = Interp(c)
    it.module_env(CF).vars["importlib"] = SymObj("importlib", Val.ref(z3.IntVal(-12)), attrs={
        "import_module": SummaryFn("import_module", lambda it_, a, k: SymObj("module", Val.ref(z3.IntVal(-13)), attrs={"__file__": "/m.py"}))})
    reg = it.call(it.get_global(CF, "CodeRegistry"), [], {})
    old, new, other = (SymObj(n, Val.ref(z3.IntVal(c.new_id()))) for n in ("old", "new", "other"))
    fn = SymObj("fn", Val.ref(z3.IntVal(c.new_id())))
    p1, p2, q = ("/m.py", "f", 10), ("/m.py", "f", None), ("/m.py", "g", None)
    it.call(it.getattr(reg, "_setcodepaths"), [[p1, p2], old], {})
    it.call(it.getattr(reg, "_setcodepaths"), [[q], other], {})
    reg.fields["functions"][old].add(fn)
    st, r = run(it, it.getattr(reg, "find_code"), ["f"], dict(module="m"))
    c.prove("find_code/before", st == "ok" and r is old)
    st, _ = run(it, it.getattr(reg, "update_cache_entry"), [fn, old, new])
    c.prove("update/no-raise", st == "ok")
    cur = reg.fields["currcodes"]
    c.prove("update/all-paths-of-old-now-lead-to-new", cur[p1] is new and cur[p2] is new)
    c.prove("update/other-paths-untouched", cur[q] is other and len(cur) == 3)
    c.prove("update/paths-follow-the-new-code", set(reg.fields["backcodes"][new]) == {p1, p2})
    c.prove("update/function-index", fn in reg.fields["functions"][new] and fn not in reg.fields["functions"][old])
    st, r = run(it, it.getattr(reg, "find_code"), ["f"], dict(module="m"))
    c.prove("find_code/after-swap-returns-current-code", st == "ok" and r is new)
    # swapping back (deactivation) restores the original mapping
    st, _ = run(it, it.getattr(reg, "update_cache_entry"), [fn, new, old])
    c.prove("swap-back/restores", st == "ok" and reg.fields["currcodes"][p2] is old and reg.fields["currcodes"][p1] is old)
    st, r = run(it, it.getattr(reg, "find_code"), ["nope"], dict(module="m"))
    c.prove("find_code/unknown-KeyError", st == "raise" and isinstance(r, KeyError))


@unit("resolve-dotted", ["C13", "C10"], [S + ":dict_resolver"], mode="bounded",
      bound="dotted names with 0-3 attribute steps; the object reached is a plain function, a bound method (receiver: an instance or a class, "
            "i.e. a classmethod / metaclass method), a property or an arbitrary object; optional __ptera__ redirection")
def u_resolve_dotted(c):
    """Resolving the symbol 'a.b.c' in an environment: exactly the object that Python's attribute access a.b.c gives --
    a bound method stays the bound method WITH its receiver (whatever kind of object the receiver is: the receiver constraint of
    obj.meth is built from it by _resolve) -- unless that object redirects through __ptera__; an unknown head or attribute is a
    SelectorError."""
    it = Interp(c)
    func = _fn_obj(c, "meth")
    kind = c.choose(5, "reached-object")
    receiver_is_class = False
    if kind == 0:
        leaf = func
    elif kind in (1, 2):
        receiver_is_class = kind == 2
        recv = SymObj("receiver", Val.ref(z3.IntVal(c.new_id())), attrs={}, closed=True)
        recv.attrs["__isinstance__"] = lambda it_, v, cls: cls in ((type, object) if receiver_is_class else (object,))
        leaf = _bound_method(c, func, recv)
    elif kind == 3:
        leaf = SymObj("property", Val.ref(z3.IntVal(c.new_id())), attrs={"fget": func}, closed=True)
        leaf.attrs["__isinstance__"] = lambda it_, v, cls: cls in (property, object)
    else:
        leaf = SymObj("anything", Val.ref(z3.IntVal(c.new_id())), attrs={}, closed=True)
        leaf.attrs["__isinstance__"] = lambda it_, v, cls: cls is object
    redirect = None
    if c.choose(2, "__ptera__"):
        redirect = _fn_obj(c, "redirected")
        leaf.attrs["__ptera__"] = redirect
    steps = c.choose(4, "attribute-steps")
    cur = leaf
    names = []
    for i in range(steps):
        nm = f"p{steps - i}"
        holder = SymObj(f"holder{i}", Val.ref(z3.IntVal(c.new_id())), attrs={nm: cur}, closed=True)
        holder.attrs["__isinstance__"] = lambda it_, v, cls: cls is object
        names.insert(0, nm)
        cur = holder
    env = {"head": cur}

    # inspect, modelled on the kinds of objects built above (the unchanged resolver does not consult it on this branch)
    def ismethod(it_, a, kw):
        return isinstance(a[0], SymObj) and "__self__" in a[0].attrs and "__func__" in a[0].attrs

    def isclass(it_, a, kw):
        return receiver_is_class and isinstance(a[0], SymObj) and a[0].name == "receiver"

    def isfunction(it_, a, kw):
        return isinstance(a[0], SymObj) and a[0].name in ("meth", "redirected")

    it.module_env(S).vars["inspect"] = SymObj("inspect", Val.ref(z3.IntVal(-10)), attrs={
        "ismethod": SummaryFn("ismethod", ismethod), "isclass": SummaryFn("isclass", isclass), "isfunction": SummaryFn("isfunction", isfunction)})
    resolver = it.call(it.get_global(S, "dict_resolver"), [env], {})
    which = c.choose(3, "query")
    if which == 0:
        st, r = run(it, resolver, [".".join(["head"] + names)])
        want = redirect if redirect is not None else leaf
        c.prove("resolves-to-exactly-the-object-attribute-access-gives", st == "ok" and r is want,
                note=f"kind={['function', 'method-of-instance', 'method-of-class-object', 'property', 'object'][kind]} steps={steps}: {st} {r!r}")
        if st == "ok" and kind in (1, 2) and redirect is None:
            c.prove("bound-method-keeps-its-receiver", isinstance(r, SymObj) and r.attrs.get("__self__") is leaf.attrs["__self__"])
    elif which == 1:
        st, r = run(it, resolver, [".".join(["nohead"] + names)])
        c.prove("unknown-head/SelectorError", st == "raise" and exc_name(r) == "SelectorError")
    else:
        st, r = run(it, resolver, [".".join(["head"] + names + ["missing"])])
        c.prove("unknown-attribute/SelectorError", st == "raise" and exc_name(r) == "SelectorError")
