"""Bounded native stand-in / replay for C13: a population of instances of several kinds (plain, value equality + hash, equality
without hash, subclass inheriting the method, method reached through a functools.wraps decorator); every object is probed in
turn (obj.meth > v), then calls are made on the whole population: exactly the calls whose receiver IS the probed object are
observed, the receiver is reported, class-level selectors observe every instance."""
import functools
import os
import sys


def deco(f):
    @functools.wraps(f)
    def wrapper(*a, **k):
        return f(*a, **k)

    return wrapper


class Plain:
    def __init__(self, n):
        self.n = n

    def put(self, v):
        stored = v + self.n
        return stored

    @deco
    def wrapped(this, v):
        kept = v * 2
        return kept


class ValueEq(Plain):
    def __eq__(self, o):
        return isinstance(o, ValueEq)

    def __hash__(self):
        return 7


class NoHash(Plain):
    def __eq__(self, o):
        return self is o


class Sub(Plain):
    pass


class Registry(type):
    def describe(kls, n):
        label = f"{kls.__name__}:{n}"
        return label


class K(metaclass=Registry):
    pass


class L(metaclass=Registry):
    pass


class KS(K):
    pass


def native_checks(tier, seed):
    sys.path.insert(0, os.environ.get("PVC_REPO", "/repo"))
    from ptera import probing

    pop = [Plain(1), Plain(2), ValueEq(3), ValueEq(4), NoHash(5), NoHash(6), Sub(7)]
    bad = []
    n = 0
    for meth, var, recv in (("put", "stored", "self"), ("wrapped", "kept", "this")):
        for rounds in range(2):  # the whole population is probed twice in a row: earlier probes must not influence later ones
            for target in pop:
                n += 1
                try:
                    with probing(f"obj.{meth} > {var}", env={"obj": target}) as prb:
                        got = prb.accum()
                        for o in pop:
                            getattr(o, meth)(10)
                except BaseException as e:  # noqa
                    bad.append((meth, pop.index(target), f"{type(e).__name__}: {e}"))
                    continue
                want = [getattr(target, meth)(10)]
                vals = [g.get(var) for g in got]
                recs = [g.get(recv) for g in got]
                if vals != want or any(r is not target for r in recs):
                    bad.append((meth, pop.index(target), f"values {vals} expected {want}; receivers ok: {[r is target for r in recs]}"))
        n += 1
        with probing(f"Plain.{meth} > {var}", env={"Plain": Plain}) as prb:
            got = prb.accum()
            for o in pop:
                getattr(o, meth)(10)
        if len(got) != len(pop):
            bad.append((meth, "class", f"{len(got)} events for {len(pop)} calls"))
    # receivers that are themselves classes (methods of a metaclass reached through its instances)
    cpop = [K, L, KS]
    for target in cpop:
        n += 1
        try:
            with probing("obj.describe > label", env={"obj": target}) as prb:
                got = prb.accum()
                for o in cpop:
                    o.describe(1)
        except BaseException as e:  # noqa
            bad.append(("describe", target.__name__, f"{type(e).__name__}: {e}"))
            continue
        if [g.get("label") for g in got] != [target.describe(1)] or any(g.get("kls") is not target for g in got):
            bad.append(("describe", target.__name__, f"events {got}"))
    viol = []
    if bad:
        script = ("import sys\nsys.path.insert(0, '/verif')\nfrom contracts import c13_native\nr = c13_native.native_checks('quick', 0)\n"
                  "print(r['summary'])\nsys.exit(1 if r['violations'] else 0)\n")
        viol.append({"name": "C13/native/population", "model": {"first": bad[0], "count": len(bad)}, "goal": str(bad[:3])[:800], "path": "", "script": script})
    return {"bounded": [{"unit": "native:receiver-population", "bound": "7 instances of 4 kinds x 2 methods (plain, decorated) x 2 rounds; 3 class objects as receivers of a metaclass method",
                         "obligations": n, "discharged": n - len(bad)}], "known": [], "violations": viol, "summary": {"probes": n, "differences": bad[:5]}}
