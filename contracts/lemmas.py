"""Property lemmas: formulas over contracts and spec functions only (no code).  They connect the proved contract of
HandlerCollection.proceed to the statement of C03 (one event per embedding of the selector chain in the live stack)."""
import z3

from pvc.units import unit, Val, SInt
from pvc.sym import Log, log_nil, log_snoc, log_cat
from pvc.fold import Fold
from pvc import models as M
from contracts.overlay import _proceed_folds, p_sel, p_acc, p_imm, p_fits, children_t


@unit("C03.lemma.count-step", ["C03", "C07"], [])
def u_count_step(c):
    """Counting homomorphism over the list terms of the proceed contract.  For any selector level s:
        count_s(next) = #{pending pairs with selector s that are not immediate}
                        + sum over pending pairs that fit fn of (number of occurrences of s among their children).
    Proved by induction on the pair index (base + step) from the unfolding equations of NS.  For a chain
    s_1 > ... > s_K of non-immediate levels where s_k is the only child of s_(k-1) and fitting depends only on the level,
    this is E(k, m+1) = E(k, m) + [fits(A, s_(k-1))] * E(k-1, m): the number of embeddings of the chain prefix that end
    at or below the new activation (the combinatorial reading of E is mathematics, not re-proved here)."""
    Fold.bounded = False
    PLOG, NS = _proceed_folds()
    s = z3.Const("level_s", Val)
    cnt = z3.Function("count_s", Log, z3.IntSort())
    kids = z3.Function("kids_of", Val, Val, z3.IntSort())   # occurrences of s among the children of a level
    i = z3.Int("i")
    selv = lambda j: Val.ref(p_sel(j))
    accv = lambda j: Val.ref(p_acc(j))
    b2i = lambda b: z3.If(b, 1, 0)
    KEEP = Fold("KEEP", z3.IntSort(), z3.IntVal(0), lambda j, a: a + b2i(z3.And(z3.Not(p_imm(j)), selv(j) == s)))
    KIDS = Fold("KIDS", z3.IntSort(), z3.IntVal(0), lambda j, a: a + z3.If(p_fits(j), kids(selv(j), s), 0))
    # base
    c.assume(cnt(log_nil) == 0)
    for ax in NS.axioms(z3.IntVal(0)) + KEEP.axioms(z3.IntVal(0)) + KIDS.axioms(z3.IntVal(0)):
        c.assume(ax)
    c.prove("base", cnt(NS.at(0)) == KEEP.at(0) + KIDS.at(0))
    # step: instantiate the homomorphism equations on exactly the terms of the unfolding of NS(i+1)
    c.assume(i >= 0)
    for ax in NS.axioms(i) + KEEP.axioms(i) + KIDS.axioms(i) + PLOG.axioms(i):
        c.assume(ax)
    pair = M.mk_tuple2(selv(i), accv(i))
    kept = log_snoc(NS.at(i), pair)
    # the fork object does not matter for counting levels: the mapped list is the children list paired with ANY accumulator
    accp = z3.Const("accp", Val)
    for keep in (kept, NS.at(i)):
        for a in (accp,):
            pass
    c.assume(cnt(kept) == cnt(NS.at(i)) + b2i(selv(i) == s))
    mapped = lambda keep: None
    # homomorphism equations, instantiated on exactly the cat / seq_map terms occurring in the unfolding of NS(i+1)
    # (ground instances only: the negated twin below then has a finite model)
    seen = set()

    def walk(t):
        if t.get_id() in seen:
            return
        seen.add(t.get_id())
        if z3.is_app(t):
            d = t.decl()
            if d.eq(log_cat):
                c.assume(cnt(t) == cnt(t.arg(0)) + cnt(t.arg(1)))
            elif d.eq(M.seq_map):
                inner = t.arg(0)  # children_t(level)
                c.assume(cnt(t) == kids(inner.arg(0), s))
            for ch in t.children():
                walk(ch)

    for ax in NS.axioms(i):
        walk(ax)
    c.assume(cnt(NS.at(i)) == KEEP.at(i) + KIDS.at(i))  # induction hypothesis
    c.prove("step", cnt(NS.at(i + 1)) == KEEP.at(i + 1) + KIDS.at(i + 1))
    c.refute("twin/step-without-the-kept-copy-must-fail", cnt(NS.at(i + 1)) == KEEP.at(i) + KIDS.at(i + 1))


@unit("C03.lemma.chain-recurrence", ["C03"], [])
def u_chain(c):
    """Specialisation to a chain level s_k whose only parent level is s_(k-1), non-immediate, fitting decided per level:
    KEEP(n) = count(pending, s_k) and KIDS(n) = fits(s_(k-1)) * count(pending, s_(k-1)), hence
    count(next, s_k) = count(pending, s_k) + fits(s_(k-1)) * count(pending, s_(k-1))."""
    Fold.bounded = False
    sk, sp = z3.Consts("s_k s_k_minus_1", Val)
    fitsP = z3.Function("fits_level", Val, z3.BoolSort())
    kids = z3.Function("kids_of", Val, Val, z3.IntSort())
    i = z3.Int("i")
    selv = lambda j: Val.ref(p_sel(j))
    b2i = lambda b: z3.If(b, 1, 0)
    CNTk = Fold("CNTk", z3.IntSort(), z3.IntVal(0), lambda j, a: a + b2i(selv(j) == sk))
    CNTp = Fold("CNTp", z3.IntSort(), z3.IntVal(0), lambda j, a: a + b2i(selv(j) == sp))
    KEEP = Fold("KEEP", z3.IntSort(), z3.IntVal(0), lambda j, a: a + b2i(z3.And(z3.Not(p_imm(j)), selv(j) == sk)))
    KIDS = Fold("KIDS", z3.IntSort(), z3.IntVal(0), lambda j, a: a + z3.If(p_fits(j), kids(selv(j), sk), 0))
    j = z3.Int("j")
    lv = z3.Const("lv", Val)
    # shape of a chain selector
    c.assume(z3.ForAll([lv], kids(lv, sk) == b2i(lv == sp)))
    c.assume(z3.ForAll([j], p_fits(j) == fitsP(selv(j))))
    c.assume(z3.ForAll([j], z3.Implies(selv(j) == sk, z3.Not(p_imm(j)))))
    for F in (CNTk, CNTp, KEEP, KIDS):
        for ax in F.axioms(z3.IntVal(0)):
            c.assume(ax)
    c.prove("base", z3.And(KEEP.at(0) == CNTk.at(0), KIDS.at(0) == b2i(fitsP(sp)) * CNTp.at(0)))
    c.assume(i >= 0)
    for F in (CNTk, CNTp, KEEP, KIDS):
        for ax in F.axioms(i):
            c.assume(ax)
    c.assume(z3.And(KEEP.at(i) == CNTk.at(i), KIDS.at(i) == b2i(fitsP(sp)) * CNTp.at(i)))
    c.prove("step", z3.And(KEEP.at(i + 1) == CNTk.at(i + 1), KIDS.at(i + 1) == b2i(fitsP(sp)) * CNTp.at(i + 1)))
    c.refute("twin/children-counted-without-fit-must-fail", KIDS.at(i + 1) == CNTp.at(i + 1))
