"""Scenario corpus (bounded native stand-in, labelled bounded, never counted as proved): every concrete scenario on which the
library was once observed to violate a property -- found by a failing obligation, a native stand-in or an independent agent --
is replayed natively by the quick check of that property, in a fresh process (replay/known/cases.py <case>; exit 1 = the
violation is reproduced).  A scenario that reproduces and is listed in known_findings.json is printed as KNOWN-FINDING; one
that reproduces and is not listed (a repaired defect that came back, or a new one) is a VIOLATION."""
import concurrent.futures as cf
import importlib.util
import os
import subprocess
import sys

ROOT = os.path.dirname(os.path.dirname(os.path.abspath(__file__)))
CASES_PY = os.path.join(ROOT, "replay", "known", "cases.py")


def _index():
    src = open(CASES_PY).read()
    start = src.index("CASES = {")
    end = src.index("\n}\n", start) + 3
    ns = {}
    exec(src[start:end], ns)
    return ns["CASES"]


def _run(case):
    p = subprocess.run([sys.executable, CASES_PY, case], capture_output=True, text=True, timeout=300)
    return case, p.returncode, (p.stdout + p.stderr)[-600:]


def _demos(prop):
    """The demonstrations written by the independent agents for the seeded changes of this property: each is a native oracle for
    the property on one specific scenario (exit 0 on a tree where the property holds there, exit 1 otherwise)."""
    sd = os.path.join(ROOT, "seeded")
    out = []
    for d in sorted(os.listdir(sd)) if os.path.isdir(sd) else []:
        if d.split("-")[0].rstrip("abcdefghijklmnopqrstuvwxyz") != prop:
            continue
        for f in sorted(os.listdir(os.path.join(sd, d))):
            if f.startswith("demo") and f.endswith(".py"):
                out.append((d, os.path.join(sd, d, f)))
    return out


def _run_demo(item):
    d, path = item
    env = {**os.environ, "PYTHONPATH": os.environ.get("PVC_REPO", "/repo")}
    p = subprocess.run([sys.executable, path], capture_output=True, text=True, timeout=300, env=env, cwd=os.path.dirname(path))
    return d, path, p.returncode, (p.stdout + p.stderr)[-600:]


def native_checks(prop, tier):
    cases = sorted(c for c, props in _index().items() if prop in props)
    # when the machinery itself is being measured against the seeded changes (canaries, tools_seeded_report.py) the oracle written for
    # a change must not be what reports it
    demos = [] if os.environ.get("PVC_NO_DEMOS") else _demos(prop)
    if not cases and not demos:
        return None
    known, viol = [], []
    n_ok = 0
    with cf.ThreadPoolExecutor(8) as ex:
        results = list(ex.map(_run, cases))
        demo_results = list(ex.map(_run_demo, demos))
    for d, path, rc, out in demo_results:
        if rc == 0:
            n_ok += 1
        elif rc == 1:
            script = f"import os, subprocess, sys\nsys.exit(subprocess.call([sys.executable, {path!r}], env={{**os.environ, 'PYTHONPATH': os.environ.get('PVC_REPO', '/repo')}}))\n"
            known.append({"obligation": f"{prop}/demo/{d}", "what_fails": out.strip()[-300:], "model": {"output": out[-400:]}, "script": script})
        else:
            raise RuntimeError(f"demo of {d} crashed (exit {rc}): {out}")
    for case, rc, out in results:
        name = f"{prop}/scenario/{case}"
        script = f"import subprocess, sys\nsys.exit(subprocess.call([sys.executable, {CASES_PY!r}, {case!r}]))\n"
        if rc == 0:
            n_ok += 1
        elif rc == 1:
            known.append({"obligation": name, "what_fails": out.strip().splitlines()[-2][:300] if len(out.strip().splitlines()) > 1 else out[:300],
                          "model": {"output": out[-400:]}, "script": script})
        else:
            raise RuntimeError(f"scenario {case} crashed (exit {rc}): {out}")
    return {"bounded": [{"unit": "native:scenario-corpus", "bound": f"{len(cases)} recorded scenarios and {len(demos)} scenario oracles written for the seeded changes of this property, "
                                                                    "each run in a fresh process",
                         "obligations": len(cases) + len(demos), "discharged": n_ok}],
            "known": known, "violations": viol, "summary": {"scenarios": len(cases), "reproduced": [k["obligation"] for k in known]}}
