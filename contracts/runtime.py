"""Contracts of the runtime core (DESIGN section 4): Interactor.interact, WorkingFrame.*, shared by
C02, C03, C04, C07, C16.  Every unit exists in an unbounded form (symbolic number of handlers, loop
invariants in closed form) and a bounded stand-in (concrete spine) used when the loop structure of the
code changes so that the invariants no longer apply."""
import collections

import z3

from pvc.units import (unit, opt_int, mk_obj, term_of, run, callback, calls_of, LoopSpec, Interp, PyRaise, SymObj,
                       SymSeq, SummaryFn, Obj, Sym, SInt, SBool, SStr, SVal, Val, concretize, exc_name)
from pvc.sym import Log, log_nil, log_snoc, ret_of
from pvc.fold import Fold

I = "ptera.interpret"
S = "ptera.selector"
TR = "ptera.transform"

# per-entry shape functions (index -> ...)
ce_ok = z3.Function("h_check_element", z3.IntSort(), z3.BoolSort())   # check_element(el_i, varname, category)
h_tags = z3.Function("h_tags", z3.IntSort(), z3.BoolSort())           # el_i.tags non-empty
h_hasi = z3.Function("h_has_intercept", z3.IntSort(), z3.BoolSort())  # acc'_i.intercept is not None
h_hast = z3.Function("h_has_trigger", z3.IntSort(), z3.BoolSort())    # acc'_i.trigger is not None
h_acc = z3.Function("h_acc", z3.IntSort(), z3.IntSort())              # identity of acc_i
h_af = z3.Function("h_af", z3.IntSort(), z3.IntSort())                # identity of acc_i.accumulator_for(el_i)
h_el = z3.Function("h_el", z3.IntSort(), z3.IntSort())                # identity of el_i
h_generic = z3.Function("h_generic", z3.IntSort(), z3.BoolSort())     # el_i is a generic capture ($x, *): its name is None
ev_intercept = z3.Function("ev_intercept", Val, Val, Val, Val, Val, Val)
ev_log = z3.Function("ev_log", Val, Val, Val, Val, Val, Val)
ev_trigger = z3.Function("ev_trigger", Val, Val, Val)


def _ix(i):
    return z3.IntVal(i) if isinstance(i, int) else i


class Handlers:
    """Shape of Interactor.accumulators[varname]: a sequence of (element, accumulator) pairs."""

    def __init__(self, it, varname_t, cat_t):
        self.it = it
        self.vn = varname_t
        self.cat = cat_t

    def element(self, i):
        i = _ix(i)
        tags = SymObj("tags", Val.ref(z3.IntVal(-1)), attrs={"__truthy__": h_tags(i)})
        # the element's name: None for a generic capture, else the variable's name (whether the entry applies to THIS binding is
        # decided by check_element -- name and category -- for generic and named elements alike)
        name = SVal(z3.If(h_generic(i), Val.none, Val.str(z3.StringVal("x"))))
        return SymObj("el", Val.ref(h_el(i)), attrs={"tags": tags, "_index": i, "name": name}, cls=None)

    def acc_for(self, i):
        i = _ix(i)
        it = self.it
        c = it.ctx
        me = Val.ref(h_af(i))
        el = Val.ref(h_el(i))

        def m_intercept(it_, a, k):
            it_.ctx.emit(ev_intercept(me, it_.to_val(a[1]), it_.to_val(a[2]), it_.to_val(a[3]), it_.to_val(a[4])))
            return SVal(ret_of(it_.ctx.log))

        def m_log(it_, a, k):
            it_.ctx.emit(ev_log(me, it_.to_val(a[1]), it_.to_val(a[2]), it_.to_val(a[3]), it_.to_val(a[4])))
            return None

        def m_trigger(it_, a, k):
            it_.ctx.emit(ev_trigger(me, it_.to_val(a[1])))
            return None

        attrs = {}
        for nm, f, has in (("intercept", m_intercept, h_hasi(i)), ("log", m_log, True), ("trigger", m_trigger, h_hast(i))):
            if has is True or c.decide(has):
                s = SummaryFn(nm, f)
                s.is_method = True
                attrs[nm] = s
            else:
                attrs[nm] = None
        return SymObj("acc'", me, attrs=attrs)

    def acc(self, i):
        i = _ix(i)
        af = SummaryFn("accumulator_for", lambda it_, a, k: self.acc_for(i))
        af.is_method = True
        return SymObj("acc", Val.ref(h_acc(i)), attrs={"accumulator_for": af})

    def pair(self, i):
        return (self.element(i), self.acc(i))

    # property-level meaning of the three passes, as folds over the index ---------------------
    def folds(self, log0, tentative_t, final_of):
        vn, cat = self.vn, self.cat
        absent = Val.absent

        def cond_i(i):
            return z3.And(ce_ok(i), h_tags(i), h_hasi(i))

        def lg_step(i, acc):
            return z3.If(cond_i(i), log_snoc(acc, ev_intercept(Val.ref(h_af(i)), Val.ref(h_el(i)), vn, cat, tentative_t)), acc)

        LG = Fold("LG", Log, log0, lg_step)

        def rv_step(i, acc):
            tmp = ret_of(LG.at(i + 1))
            return z3.If(z3.And(cond_i(i), tmp != absent), tmp, acc)

        RV = Fold("RV", Val, absent, rv_step)
        return LG, RV

    def folds2(self, LGn, final_t):
        vn, cat = self.vn, self.cat

        def log_step(i, acc):
            return z3.If(ce_ok(i), log_snoc(acc, ev_log(Val.ref(h_af(i)), Val.ref(h_el(i)), vn, cat, final_t)), acc)

        LOGF = Fold("LOGF", Log, LGn, log_step)
        return LOGF

    def folds3(self, LOGn):
        def trg_step(i, acc):
            return z3.If(z3.And(ce_ok(i), h_tags(i), h_hast(i)), log_snoc(acc, ev_trigger(Val.ref(h_af(i)), Val.ref(h_el(i)))), acc)

        return Fold("TRGF", Log, LOGn, trg_step)


def _ce_summary(it, f, args, kwargs):
    """check_element by contract: a boolean function of the entry (proved against its body under C11)."""
    el = args[0]
    i = el.attrs["_index"]
    return concretize(SBool(ce_ok(i)))


def _interact_harness(c, mode, k=2):
    n = z3.Int("n") if mode == "sym" else z3.IntVal(k)
    if mode == "sym":
        c.inputs["n"] = SInt(n)
        c.assume(n >= 0)
    value = c.val("value")
    cat = c.val("category")
    ovr_b = c.decide(c.bool("overridable").t)
    it = Interp(c, policies={S + ":check_element": _ce_summary})
    absent_v = it.models.absent(it)
    # key: None, attribute key or index key (real Key objects; affix_to is executed from its real body)
    kc = c.choose(4, "key") if mode == "sym" else 0
    if mode != "sym":
        for i in range(k):  # the stand-in fixes trigger presence and ties tags to intercept presence (stated in its bound)
            c.assume(h_hast(z3.IntVal(i)))
            c.assume(h_tags(z3.IntVal(i)) == h_hasi(z3.IntVal(i)))
    if kc == 0:
        key = None
    elif kc == 1:
        key = it.call(it.get_global(TR, "Key"), ["attr", "y"], {})
    elif kc == 2:
        key = it.call(it.get_global(TR, "Key"), ["index", "k"], {})
    else:
        # any object may be an index (a tuple for a grid): the item keeps a name of its own, it is never the container itself
        key = it.call(it.get_global(TR, "Key"), ["index", (1, 2)], {})
    # shape: a keyed (attribute / item) interaction always carries a real value -- the transformer only emits the ABSENT marker
    # for declarations of plain names (clause visit_AnnAssign/declared-attribute-left-untouched)
    if key is not None:
        c.require(value.t != Val.absent)
    varname = "x"
    full = varname if key is None else it.call(it.getattr(key, "affix_to"), [varname], {})
    c.prove("affix/attr-index-naming", full == {0: "x", 1: "x.y", 2: "x['k']", 3: "x[(1, 2)]"}[kc])
    H = Handlers(it, it.to_val(full), cat.t)
    if mode == "sym":
        seq = SymSeq("handlers", n, H.pair)
    else:
        seq = [H.pair(i) for i in range(k)]
    accs = collections.defaultdict(list)
    accs[full] = seq
    other = c.val("other_entry")
    accs["zzz_other"] = [other]  # entries registered for other variables must never be consulted
    info = {"x": {"provenance": c.val("prov"), "annotation": c.val("ann")}}
    fn = SymObj("fn", Val.ref(z3.IntVal(c.new_id())), attrs={"__ptera_info__": info})
    itor = mk_obj(it, I, "Interactor", fn=fn, accumulators=accs, to_close=[])

    Fold.bounded = mode != "sym"
    LG, RV = H.folds(log_nil, value.t, None)
    r = RV.at(n) if mode == "sym" else RV.concrete(k)
    lgn = LG.at(n) if mode == "sym" else LG.concrete(k)
    final = z3.If(r != Val.absent, r, value.t)
    LOGF = H.folds2(lgn, final)
    logn = LOGF.at(n) if mode == "sym" else LOGF.concrete(k)
    TRGF = H.folds3(logn)
    trgn = TRGF.at(n) if mode == "sym" else TRGF.concrete(k)
    if mode == "sym":
        it.loopspecs = {
            (I + ":WorkingFrame.intercept", 0): LoopSpec(closed=lambda it_, env, i: {"@carried": SVal(RV.at(i))}, ghost=lambda it_, env, i: LG.at(i),
                                                        axioms=lambda it_, env, i: LG.axioms(i) + RV.axioms(i)),
            (I + ":WorkingFrame.log", 0): LoopSpec(ghost=lambda it_, env, i: LOGF.at(i), axioms=lambda it_, env, i: LOGF.axioms(i)),
            (I + ":WorkingFrame.trigger", 0): LoopSpec(ghost=lambda it_, env, i: TRGF.at(i), axioms=lambda it_, env, i: TRGF.axioms(i)),
        }
    st, res = run(it, it.getattr(itor, "interact"), [varname, key, cat, value, ovr_b])
    if st == "ok":
        c.cover("return")
        c.prove("ensures/result-is-last-non-ABSENT-intercept-or-original", it.to_val(res) == final)
        c.prove("ensures/ABSENT-never-returned", it.to_val(res) != Val.absent)
        c.prove("ensures/override-only-if-overridable", z3.Implies(r != Val.absent, ovr_b))
        c.prove("ensures/history=intercepts;logs(final);triggers", c.log == trgn)
    else:
        nm = exc_name(res)
        if nm == "OverrideException":
            c.cover("OverrideException")
            c.prove("raises/OverrideException-iff-intercepted-and-not-overridable", z3.And(r != Val.absent, not ovr_b))
            c.prove("raises/OverrideException-before-any-log-or-trigger", c.log == lgn)
        elif nm == "PteraNameError":
            c.cover("PteraNameError")
            c.prove("raises/PteraNameError-iff-value-ABSENT-after-interception", z3.And(r == Val.absent, value.t == Val.absent))
            c.prove("raises/PteraNameError-before-any-log-or-trigger", c.log == lgn)
            c.prove("raises/PteraNameError-identifies-variable-and-function",
                    res.fields.get("varname") == full and res.fields.get("function") is fn)
            st2, inf = run(it, it.getattr(res, "info"), [])
            c.prove("raises/PteraNameError-info-is-recorded-entry", st2 == "ok" and inf is info["x"])
            # the error is normally caught OUTSIDE the with-block of the probe: by then the last probe was popped and _apply reset
            # the function's table (__ptera_info__ = None); the error still exposes the recorded annotation and provenance
            fn.attrs["__ptera_info__"] = None
            st3, inf3 = run(it, it.getattr(res, "info"), [])
            c.prove("raises/PteraNameError-info-survives-deactivation", st3 == "ok" and inf3 is info["x"], only=["C16"])
        else:
            if key is not None and nm == "KeyError":
                # C16: a declared-only attribute/item target must fail with the ptera name error; other properties
                # treat the declaration as outside their scope
                c.prove("raises/declared-attribute-or-item-target:name-error-not-KeyError", False, only=["C16"])
            else:
                c.prove("raises/only-OverrideException-or-PteraNameError", False, note=f"raised {nm}")
    c.prove("frame/other-variables-untouched", accs["zzz_other"] == [other] and len(accs) == 2)
    c.prove("frame/interactor-fields", itor.fields["fn"] is fn and itor.fields["accumulators"] is accs and itor.fields["to_close"] == [])


def _replay_file(name):
    import os
    p = os.path.join(os.path.dirname(os.path.dirname(os.path.abspath(__file__))), "replay", name)
    return lambda o: open(p).read()


INTERACT_TARGETS = [I + ":Interactor.interact", I + ":Interactor.work_on", I + ":WorkingFrame.__init__", I + ":WorkingFrame.__enter__",
                    I + ":WorkingFrame.__exit__", I + ":WorkingFrame.intercept", I + ":WorkingFrame.log", I + ":WorkingFrame.trigger",
                    TR + ":Key.affix_to", TR + ":PteraNameError.__init__", TR + ":PteraNameError.info"]


@unit("interact", ["C02", "C04", "C16", "C01", "C12", "C11", "C03", "C06", "C07", "C09", "C13"], INTERACT_TARGETS, replay=_replay_file("c04_interact.py"),
      assumed=["check_element is used through its contract (boolean function of element, name, category; proved under C11)",
               "accumulator_for of an opaque accumulator is effect-free for interact (forking is specified under C07)"])
def u_interact(c):
    """Interactor.interact for ANY number of registered handlers: result = last non-ABSENT intercept
    (in registration order) or the original value; never ABSENT; override refused for non-overridable
    bindings; history = all intercepts, then one log(final) per matching entry, then one trigger per
    focused entry; OverrideException / PteraNameError exactly under their conditions and before any log."""
    _interact_harness(c, "sym")


@unit("interact-bounded", ["C02", "C04", "C16", "C01", "C12", "C11", "C03", "C06", "C07", "C09", "C13"], INTERACT_TARGETS, mode="bounded", bound="2 handler entries for the variable, key None, triggers present, tags iff intercept present",
      fallback_for="interact", replay=_replay_file("c04_interact.py"))
def u_interact_b(c):
    """Bounded stand-in for 'interact' (2 concrete entries with symbolic fields)."""
    _interact_harness(c, "bounded", 2)


@unit("PteraNameError", ["C16"], [TR + ":PteraNameError.__init__", TR + ":PteraNameError.info"])
def u_ptera_name_error(c):
    """The error raised for a declared-only variable that nobody supplies: a NameError that identifies the variable and the function and
    exposes the variable's recorded annotation and provenance -- also when the function is not instrumented any more at that moment (an
    activation that began while it was: a generator advanced after its probe ended), where there is nothing recorded left to expose but
    the error is still this error and not an internal one."""
    it = Interp(c)
    state = c.choose(3, "function")  # 0 instrumented, the variable is in the table; 1 instrumented, not in the table; 2 no table any more
    entry = {"provenance": ["body", "external"][c.choose(2, "provenance")], "annotation": c.val("ann")}
    attrs = {} if state == 2 else {"__ptera_info__": {"x": entry} if state == 0 else {"other": {}}}
    fn = SymObj("fn", Val.ref(z3.IntVal(c.new_id())), attrs=attrs, closed=True)
    st, e = run(it, it.get_global(TR, "PteraNameError"), ["x", fn])
    c.prove("constructed-without-an-internal-error", st == "ok", note=f"{st} {e!r}")
    if st != "ok":
        return
    c.prove("identifies-the-variable-and-the-function", e.fields.get("varname") == "x" and e.fields.get("function") is fn)
    # ... in its message as well (what the user reads when the call fails there)
    msg = e.exc_args[0] if getattr(e, "exc_args", None) else None
    c.prove("message-names-the-variable", isinstance(msg, str) and "'x'" in msg, note=repr(msg))
    st, inf = run(it, it.getattr(e, "info"), [])
    c.prove("info/exposes-the-recorded-entry", st == "ok" and (inf is entry if state == 0 else inf == {}), note=f"{inf!r}")
    # the entry is kept by the error itself: it survives the removal of the table when the probe ends before the error is looked at
    if state == 0:
        del fn.attrs["__ptera_info__"]
        st, inf2 = run(it, it.getattr(e, "info"), [])
        c.prove("info/survives-deactivation", st == "ok" and inf2 is entry)
