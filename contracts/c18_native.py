"""Bounded native stand-in for the parts of C18 out of the engine's reach (Lexer.__call__ regex matching, Parser.process
termination on arbitrary token lists, dict_resolver / VSymbol.eval): every string over the selector alphabet up to a
stated length is compiled with the REAL parse() and select(); the outcome must be a selector or one of the refusals the
property allows.  Labelled bounded; never counted as proved."""
import itertools
import os
import random
import signal
import sys
import re
import traceback

ALPHABET = ["a", "f", "x", "#", "@", "*", ".", "/", "!", "$", "(", ")", ">", ":", ",", "=", "~", " ", " as ", "'", "1", "T", "_", "-"]


def _classify(fn, s):
    import ptera.selector as sel
    from ptera.utils import CodeNotFoundError

    try:
        r = fn(s)
        # an operator of the selector language is not a variable: a string such as ")" or "f(!:T)" must not compile to a selector that
        # captures a variable CALLED ")" or "!" (such a selector can never match anything)
        todo, seen = [r], []
        while todo:
            x = todo.pop()
            if isinstance(x, sel.Element):
                seen += [v for v in (x.name, x.capture) if isinstance(v, str)]
            elif isinstance(x, sel.Call):
                todo += [x.element, *x.captures, *x.children]
        if getattr(fn, "__name__", "") != "parse":
            seen = []  # after resolution a name may be any value of the environment, or the text of a quoted string ('=' is a string)
        bad = [v for v in seen if re.fullmatch(r"\s*(?:\bas\b|>>|!+|\[\[|\]\]|[(){}\[\]>:,$=~])\s*", v)]
        if bad:
            return f"operator-token-compiled-as-a-variable-name({bad[0]!r})"
        return None
    except SyntaxError as e:
        # "a syntax error (with the offending position)": line 1, and the offset points at the text the error carries -- in the
        # coordinates of the stripped string, which is what the lexer works on
        st = s.strip()
        if st and not (e.lineno == 1 and isinstance(e.offset, int) and 1 <= e.offset <= len(st) + 1 and isinstance(e.text, str) and st[e.offset - 1:] == e.text):
            return f"SyntaxError-without-a-consistent-position(lineno={e.lineno}, offset={e.offset}, text={e.text!r})"
        return None
    except sel.SelectorError:
        return None
    except CodeNotFoundError:
        return None
    except TypeError as e:
        if "category can only be a Tag" in str(e):
            return None
        tb = traceback.extract_tb(e.__traceback__)
        where = [t for t in tb if "/ptera/" in t.filename]
        if where and where[-1].name == "eval" and "fn(*args, **kwargs)" in (where[-1].line or ""):
            return None
        return f"TypeError@{tb[-1].name}"
    except BaseException as e:  # noqa
        tb = traceback.extract_tb(e.__traceback__)
        where = [t for t in tb if "/ptera/" in t.filename]
        if where and where[-1].name == "eval" and "fn(*args, **kwargs)" in (where[-1].line or ""):
            return None  # the user's own value expression (evaluated in the caller's environment) failed: not ptera's error
        return f"{type(e).__name__}@{(where[-1] if where else tb[-1]).name}"


def native_checks(tier, seed):
    sys.path.insert(0, os.environ.get("PVC_REPO", "/repo"))
    import ptera.selector as sel
    from ptera.tags import tag

    def f(x):
        a = x
        return a

    def g(y):
        return y

    env = {"f": f, "a": g, "x": 3, "T": tag.T}
    maxlen = 3 if tier == "quick" else 4
    rng = random.Random(seed)
    strings = []
    for n in range(0, maxlen + 1):
        for t in itertools.product(ALPHABET, repeat=n):
            strings.append("".join(t))
    extra = 3000 if tier == "quick" else 60000
    for _ in range(extra):
        n = rng.randint(maxlen + 1, 8)
        strings.append("".join(rng.choice(ALPHABET) for _ in range(n)))

    class Timeout(Exception):
        pass

    def alarm(*a):
        raise Timeout()

    # "terminates" is judged on the CPU time of this process (ITIMER_VIRTUAL), not on the wall clock: a loaded machine must not turn a
    # slow run into a verdict
    signal.signal(signal.SIGVTALRM, alarm)
    cats = {}
    hung = []
    for s in strings:
        for name, fn in (("parse", sel.parse), ("select", lambda z: sel.select(z, env=env))):
            signal.setitimer(signal.ITIMER_VIRTUAL, 5.0)
            try:
                c = _classify(fn, s)
            except Timeout:
                c = "does-not-terminate"
            finally:
                signal.setitimer(signal.ITIMER_VIRTUAL, 0)
            if c:
                cats.setdefault(f"{name}:{c}", []).append(s)
    known = []
    for cat, ss in sorted(cats.items()):
        ex = min(ss, key=len)
        script = f'''
import sys
sys.path.insert(0, __import__("os").environ.get("PVC_REPO", "/repo"))
import ptera.selector as sel
from ptera.tags import tag
def f(x):
    a = x
    return a
env = {{"f": f, "a": f, "x": 3, "T": tag.T}}
s = {ex!r}
try:
    {"sel.parse(s)" if cat.startswith("parse") else "sel.select(s, env=env)"}
    sys.exit(0)
except (SyntaxError, sel.SelectorError) as e:
    print("refused cleanly", type(e).__name__); sys.exit(0)
except BaseException as e:
    print("internal error for", repr(s), ":", type(e).__name__, e); sys.exit(1)
'''
        known.append({"obligation": f"C18/native/{cat}", "what_fails": f"{len(ss)} strings, e.g. {ex!r}", "model": {"example": ex, "count": len(ss)}, "script": script})
    return {
        "bounded": [{"unit": "native:lexer+parser+resolver", "bound": f"all strings of length <= {maxlen} over {len(ALPHABET)} alphabet symbols plus {extra} seeded strings of length <= 8; parse() and select()",
                     "obligations": 2 * len(strings), "discharged": 2 * len(strings) - sum(len(v) for v in cats.values())}],
        "known": known,
        "violations": [],
        "summary": {"strings": len(strings), "categories": {k: len(v) for k, v in cats.items()}},
    }
