"""C05 / C17 (and parts of C14): instrumentation stacks, tooling, probe life cycle."""
import collections

import z3

from pvc.units import (unit, mk_obj, term_of, run, callback, calls_of, LoopSpec, Interp, PyRaise, SymObj,
                       SymSeq, SummaryFn, Obj, Sym, SInt, SBool, SStr, SVal, Val, concretize, exc_name)
from pvc.values import FuncV, ClassV
from pvc.sym import Log, log_nil, log_snoc, ret_of
from pvc.world import World

TR = "ptera.transform"
O = "ptera.overlay"
P = "ptera.probe"
S = "ptera.selector"


def _replay_file(name):
    import os
    p = os.path.join(os.path.dirname(os.path.dirname(os.path.abspath(__file__))), "replay", name)
    return lambda o: open(p).read()


def _elements(it, k=3):
    # distinct selector elements; two of them have the SAME capture name (f > $v:@A next to f > $v:@B, or the anonymous /1 of two
    # selectors): what is instrumented is decided per element, never per capture name
    return [SymObj(f"e{i}", Val.ref(z3.IntVal(it.ctx.new_id())), attrs={"capture": "v" if i < 2 else "w", "name": None if i < 2 else "w", "category": f"tag{i}"},
                   closed=True) for i in range(k)]


def _choose_tuple(c, els, maxlen=2):
    n = c.choose(maxlen + 1)
    return tuple(els[c.choose(len(els))] for _ in range(n))


def _tset_stub(it, log):
    """TransformSet through its contract: transform_for(caps) is a function of (None | the SET of captures)."""
    variants = {}

    def tf(it_, a, k):
        caps = a[1]
        key = None if caps is None else frozenset(caps)
        log.append(("transform_for", caps if caps is None else list(caps)))
        if key not in variants:
            nm = "base" if key is None else "variant{" + ",".join(sorted(x.name for x in key)) + "}"
            # the base entry is the ORIGINAL function as TransformSet._register records it: an untooled function has neither an
            # information table nor a token (None, None)
            variants[key] = tuple((None if key is None and part in ("info", "token") else SymObj(f"{nm}.{part}", Val.ref(z3.IntVal(it_.ctx.new_id()))))
                                  for part in ("fn", "code", "info", "token"))
        return variants[key]

    s = SummaryFn("transform_for", tf)
    s.is_method = True
    return SymObj("tset", Val.ref(z3.IntVal(it.ctx.new_id())), attrs={"transform_for": s}), variants


@unit("StackedTransforms", ["C05", "C11", "C02", "C13", "C04", "C12", "C16"], [TR + ":StackedTransforms.__init__", TR + ":StackedTransforms.push", TR + ":StackedTransforms.pop",
                                     TR + ":StackedTransforms.get"], replay=_replay_file("c05_history.py"))
def u_stack(c):
    """Abstract view: a multiset Act of pushed capture tuples.  well_formed: instrument_count = |Act| and
    captures[e] = number of occurrences of e in Act (for ANY such state, symbolic counters, zero-count keys allowed).
    push(t): Act+{t}; pop(t) (t in Act): Act-{t}; get(): base variant iff Act is empty, else the variant for
    exactly {e | captures[e] > 0}.  One step from an arbitrary well-formed state => holds after every history."""
    it = Interp(c)
    els = _elements(it)
    log = []
    tset, variants = _tset_stub(it, log)
    st0 = it.call(it.get_global(TR, "StackedTransforms"), [tset], {})
    c.prove("init/empty", st0.fields["instrument_count"] == 0 and len(st0.fields["captures"]) == 0 and st0.fields["tset"] is tset)
    # arbitrary well-formed state
    ic = c.int("ic")
    ks = [c.int(f"k{i}") for i in range(3)]
    c.assume(ic.t >= 0)
    cnt = collections.Counter()
    present = []
    for i, e in enumerate(els):
        if c.choose(2):  # key present in the Counter (possibly with count zero: Counter keeps zero entries)
            cnt[e] = ks[i]
            present.append(i)
            c.assume(ks[i].t >= 0)
        else:
            c.assume(ks[i].t == 0)
    c.assume(z3.Implies(ic.t == 0, z3.And(*[k.t == 0 for k in ks])))  # Act empty => no occurrences
    stk = mk_obj(it, TR, "StackedTransforms", tset=tset, instrument_count=ic, captures=cnt)
    op = c.choose(3)
    t = _choose_tuple(c, els)
    occ = [sum(1 for x in t if x is e) for e in els]

    def count_of(i):
        v = stk.fields["captures"].get(els[i], 0)
        return it._arith(v)

    if op == 0:
        st, _ = run(it, it.getattr(stk, "push"), [t])
        c.prove("push/no-raise", st == "ok")
        c.prove("push/count", it._arith(stk.fields["instrument_count"]) == ic.t + 1)
        c.prove("push/occurrences", z3.And(*[count_of(i) == ks[i].t + occ[i] for i in range(3)]))
    elif op == 1:
        # requires t in Act
        c.require(ic.t >= 1)
        for i in range(3):
            c.require(ks[i].t >= occ[i])
        st, _ = run(it, it.getattr(stk, "pop"), [t])
        c.prove("pop/no-raise", st == "ok")
        c.prove("pop/count", it._arith(stk.fields["instrument_count"]) == ic.t - 1)
        c.prove("pop/occurrences", z3.And(*[count_of(i) == ks[i].t - occ[i] for i in range(3)]))
    else:
        st, res = run(it, it.getattr(stk, "get"), [])
        c.prove("get/no-raise", st == "ok")
        c.prove("get/one-lookup", len(log) == 1)
        if log:
            caps = log[0][1]
            if caps is None:
                c.prove("get/base-iff-nothing-active", ic.t == 0)
            else:
                conj = [ic.t > 0]
                for i, e in enumerate(els):
                    inn = any(x is e for x in caps)
                    conj.append(ks[i].t > 0 if inn else ks[i].t <= 0)
                conj.append(z3.BoolVal(len(caps) == len(set(id(x) for x in caps))))
                c.prove("get/variant-for-exactly-the-active-captures", z3.And(*conj))
        c.prove("get/frame", stk.fields["instrument_count"] is ic and stk.fields["captures"] is cnt)


@unit("SyncedStackedTransforms", ["C05", "C14", "C02", "C06", "C13"], [TR + ":SyncedStackedTransforms.push", TR + ":SyncedStackedTransforms.pop",
                                                 TR + ":SyncedStackedTransforms._apply", TR + ":StackedTransforms.get"],
      assumed=["codefind.code_registry.update_cache_entry is used through a ghost event (its effect on resolution is specified under C14)"],
      replay=_replay_file("c05_history.py"))
def u_synced(c):
    """After EVERY push/pop from an arbitrary well-formed state, the target function runs exactly the variant that get()
    selects for the new state: __code__, __ptera_info__, __ptera_token__ installed, __ptera_discard__ False,
    globals[token] is the function, and the code registry was told (fn, old code, new code) before the swap.
    In particular when the last probe is popped the base (original) code is installed again."""
    it = Interp(c)
    els = _elements(it)
    log = []
    tset, variants = _tset_stub(it, log)
    reg = []

    def uce(it_, a, k):
        reg.append(tuple(a))

    registry = SymObj("code_registry", Val.ref(z3.IntVal(c.new_id())), attrs={"update_cache_entry": SummaryFn("update_cache_entry", uce)})
    it.import_hook = lambda mod, name: registry if (mod, name) == ("codefind", "code_registry") else None
    ic = c.int("ic")
    ks = [c.int(f"k{i}") for i in range(3)]
    c.assume(ic.t >= 0)
    cnt = collections.Counter()
    for i, e in enumerate(els):
        if c.choose(2):
            cnt[e] = ks[i]
            c.assume(ks[i].t >= 0)
        else:
            c.assume(ks[i].t == 0)
    c.assume(z3.Implies(ic.t == 0, z3.And(*[k.t == 0 for k in ks])))
    glb = {}
    oldcode = SymObj("installed_code", Val.ref(z3.IntVal(c.new_id())))
    fn = SymObj("target", Val.ref(z3.IntVal(c.new_id())), attrs={"__code__": oldcode, "__globals__": glb}, closed=True)
    stk = mk_obj(it, TR, "SyncedStackedTransforms", tset=tset, instrument_count=ic, captures=cnt, target=fn, conformer=None)
    op = c.choose(2)
    t = _choose_tuple(c, els)
    occ = [sum(1 for x in t if x is e) for e in els]
    if op == 1:
        c.require(ic.t >= 1)
        for i in range(3):
            c.require(ks[i].t >= occ[i])
    st, _ = run(it, it.getattr(stk, "push" if op == 0 else "pop"), [t])
    c.prove("no-raise", st == "ok")
    new_ic = ic.t + (1 if op == 0 else -1)
    newk = [ks[i].t + (occ[i] if op == 0 else -occ[i]) for i in range(3)]
    c.prove("apply/one-variant-lookup", len(log) == 1)
    if len(log) == 1:
        caps = log[0][1]
        key = None if caps is None else frozenset(caps)
        var = variants[key]
        if caps is None:
            c.prove("apply/base-code-iff-no-probe-left", new_ic == 0)
        else:
            conj = [new_ic > 0]
            for i, e in enumerate(els):
                conj.append(newk[i] > 0 if any(x is e for x in caps) else newk[i] <= 0)
            c.prove("apply/variant-for-exactly-the-active-captures", z3.And(*conj))
        c.prove("apply/installed", fn.attrs.get("__code__") is var[1] and fn.attrs.get("__ptera_info__") is var[2] and fn.attrs.get("__ptera_token__") is var[3])
        c.prove("apply/not-discarded", fn.attrs.get("__ptera_discard__") is False)
        if caps is None:
            # back on the ORIGINAL code: no trace of the tooling is left on the function (is_tooled(fn) is what tooled() and
            # Call.problems consult: a function that merely WAS probed must not look tooled) nor in its module
            c.prove("apply/base/no-trace-left-on-the-function-or-its-globals", "__ptera_info__" not in fn.attrs and "__ptera_token__" not in fn.attrs and len(glb) == 0,
                    note=f"attrs={sorted(k for k in fn.attrs if k.startswith('__ptera'))} globals={list(glb)}", only=["C05"])
        else:
            c.prove("apply/self-reference", glb.get(var[3]) is fn and len(glb) == 1)
        c.prove("apply/registry-told-before-swap", len(reg) == 1 and reg[0][0] is fn and reg[0][1] is oldcode and reg[0][2] is var[1], only=["C05", "C14"])


@unit("TransformSet", ["C05", "C14", "C11", "C02"], [TR + ":TransformSet.__init__", TR + ":TransformSet._set_base", TR + ":TransformSet._register",
                                      TR + ":TransformSet.transform_for"],
      assumed=["types.FunctionType(code, globals, name, argdefs, closure) creates a new function object sharing the code object",
               "transform() is used through a ghost call (its own contract is the transformer schema, C01)"])
def u_tset(c):
    """transform_for(None) is the tuple registered at creation: (fn, the code fn had at that moment, its info, its token);
    the private copy sharing that code is marked __ptera_discard__; transform_for(caps) transforms the base copy once per
    distinct capture SET (memo keyed by frozenset) with to_instrument = that set."""
    it = Interp(c)
    made = []

    def functype(it_, a, k):
        o = SymObj("base_function", Val.ref(z3.IntVal(it_.ctx.new_id())), attrs=dict(k))
        made.append(o)
        return o

    types_ns = SymObj("types", Val.ref(z3.IntVal(-3)), attrs={"FunctionType": SummaryFn("FunctionType", functype)})
    it.module_env(TR).vars["types"] = types_ns
    tcalls = []

    def transform_summary(it_, f, args, kwargs):
        tcalls.append((args, kwargs))
        return SymObj("transformed", Val.ref(z3.IntVal(it_.ctx.new_id())), attrs={
            "__code__": SymObj("tcode", Val.ref(z3.IntVal(it_.ctx.new_id()))),
            "__ptera_info__": SymObj("tinfo", Val.ref(z3.IntVal(it_.ctx.new_id()))),
            "__ptera_token__": SymObj("ttoken", Val.ref(z3.IntVal(it_.ctx.new_id())))})

    it.policies[TR + ":transform"] = transform_summary
    code0 = SymObj("code0", Val.ref(z3.IntVal(c.new_id())))
    fn = SymObj("fn", Val.ref(z3.IntVal(c.new_id())), attrs={"__code__": code0, "__globals__": {}, "__name__": "f", "__defaults__": None, "__closure__": None}, closed=True)
    proceed = SymObj("proceed", Val.ref(z3.IntVal(c.new_id())))
    if c.choose(2, "already-fully-tooled"):
        # the function was tooled by the decorator / in place: EVERY variable is instrumented and overlays rely on that.  A probe
        # on some of its variables must not swap in a narrower variant (an active overlay on another variable would lose events):
        # every capture set is served by the function's own, fully instrumented code
        info0, token0 = SymObj("info0", Val.ref(z3.IntVal(c.new_id()))), SymObj("token0", Val.ref(z3.IntVal(c.new_id())))
        fn.attrs["__ptera_info__"] = info0
        fn.attrs["__ptera_token__"] = token0
        ts = it.call(it.get_global(TR, "TransformSet"), [fn, proceed], dict(set_conformer=False))
        st, base = run(it, it.getattr(ts, "transform_for"), [None])
        c.prove("tooled-base/registered-as-it-is", st == "ok" and base[0] is fn and base[1] is code0 and base[2] is info0 and base[3] is token0)
        _El = it.get_global(S, "Element")
        st, v = run(it, it.getattr(ts, "transform_for"), [[it.call(_El, [], dict(name="p", capture="p"))]])
        c.prove("tooled-base/every-capture-set-keeps-the-fully-instrumented-code", st == "ok" and v is base and tcalls == [], only=["C05", "C02"])
        return
    ts = it.call(it.get_global(TR, "TransformSet"), [fn, proceed], dict(set_conformer=False))
    c.prove("base/private-copy-shares-code-and-is-discarded", len(made) == 1 and made[0].attrs.get("code") is code0
            and made[0].attrs.get("__ptera_discard__") is True and ts.fields["base_function"] is made[0])
    st, base = run(it, it.getattr(ts, "transform_for"), [None])
    c.prove("base/no-raise", st == "ok")
    c.prove("base/original-function-and-code", isinstance(base, tuple) and base[0] is fn and base[1] is code0 and base[2] is None and base[3] is None)
    c.prove("base/no-transform", tcalls == [])
    _El = it.get_global(S, "Element")
    els = [it.call(_El, [], dict(name=n, capture=n)) for n in ("p", "q")]
    a = _choose_tuple(c, els)
    st, v1 = run(it, it.getattr(ts, "transform_for"), [list(a)])
    c.prove("variant/no-raise", st == "ok")
    c.prove("variant/transforms-base-copy-once", len(tcalls) == 1 and tcalls[0][0][0] is made[0]
            and tcalls[0][1].get("proceed") is proceed and tcalls[0][1].get("to_instrument") == frozenset(a) and tcalls[0][1].get("set_conformer") is False)
    if len(tcalls) == 1 and st == "ok":
        # RefInv (C14): the target will run this variant's code, so the variant function object itself must be marked as
        # one of ptera's private copies, otherwise '/module/function' finds two functions sharing the installed code
        c.prove("variant/function-object-marked-discard", v1[0].attrs.get("__ptera_discard__") is True, only=["C14"])
        c.prove("variant/tuple", v1[1] is v1[0].attrs["__code__"] and v1[2] is v1[0].attrs["__ptera_info__"] and v1[3] is v1[0].attrs["__ptera_token__"])
    b = tuple(reversed(a)) + (a[:1] if a else ())  # same SET, different order / repetition
    st, v2 = run(it, it.getattr(ts, "transform_for"), [list(b)])
    c.prove("variant/memo-by-set", st == "ok" and v2 is v1 and len(tcalls) == 1)
    st, base2 = run(it, it.getattr(ts, "transform_for"), [None])
    c.prove("base/stable", base2 is base)
    # real (interned) capture elements that differ only in their category / focus: different capture sets
    Element = it.get_global(S, "Element")
    tA = it.getattr(it.get_global("ptera.tags", "tag"), "A")
    tB = it.getattr(it.get_global("ptera.tags", "tag"), "B")
    variants = [dict(name=None, capture="x", category=tA), dict(name=None, capture="x", category=tB), dict(name=None, capture="x"),
                dict(name="v", capture="v", category=tA), dict(name="v", capture="v"), dict(name="v", capture="v", tags=frozenset({1}))]
    i1 = c.choose(len(variants), "first")
    i2 = c.choose(len(variants), "second")
    e1 = it.call(Element, [], variants[i1])
    e2 = it.call(Element, [], variants[i2])
    n0 = len(tcalls)
    st, w1 = run(it, it.getattr(ts, "transform_for"), [[e1]])
    st2, w2 = run(it, it.getattr(ts, "transform_for"), [[e2]])
    c.prove("elements/no-raise", st == "ok" and st2 == "ok")
    if st == "ok" and st2 == "ok":
        c.prove("elements/variant-is-compiled-for-exactly-the-requested-captures",
                tcalls[n0][1].get("to_instrument") == frozenset([e1]) and (w2 is w1) == (e1 is e2)
                and (e1 is e2 or tcalls[-1][1].get("to_instrument") == frozenset([e2])), only=["C11", "C05", "C02"])


@unit("tooler", ["C05", "C10", "C18"], [O + ":_tooler", O + ":_untooler"])
def u_tooler(c):
    """_tooler(fn, caps): TypeError iff fn has no __code__ (nothing modified); otherwise the function's stack (created on
    first use, reused afterwards) receives exactly one push(caps).  _untooler: exactly one pop(caps) iff a stack exists."""
    it = Interp(c)
    events = []

    def mk_stack():
        def push(it_, a, k):
            events.append(("push", a[0]))

        def pop(it_, a, k):
            events.append(("pop", a[0]))

        # observable state of the stack after the pop: the function is still instrumented as a pure path element of another
        # selector (instrument_count > 0) although no variable is captured any more (all counts 0) -- the stack must stay
        return SymObj("stack", Val.ref(z3.IntVal(c.new_id())), attrs={"push": SummaryFn("push", push), "pop": SummaryFn("pop", pop),
                                                                       "captures": collections.Counter({"c1": 0}), "instrument_count": 1})

    created = []

    def sst(it_, a, k):
        s = mk_stack()
        created.append((a, k, s))
        return s

    it.module_env(O).vars["SyncedStackedTransforms"] = SummaryFn("SyncedStackedTransforms", sst)
    kind = c.choose(3)
    caps = ("c1",)
    if kind == 0:
        fn = SymObj("notfn", Val.ref(z3.IntVal(c.new_id())), attrs={}, closed=True)
        st, r = run(it, it.get_global(O, "_tooler"), [fn, caps])
        c.prove("tooler/TypeError-for-non-function", st == "raise" and isinstance(r, TypeError) and events == [] and created == [] and fn.attrs == {})
        st, r = run(it, it.get_global(O, "_untooler"), [fn, caps])
        c.prove("untooler/noop-without-stack", st == "ok" and r is fn and events == [])
        return
    fn = SymObj("fn", Val.ref(z3.IntVal(c.new_id())), attrs={"__code__": SymObj("code", Val.ref(z3.IntVal(c.new_id())))}, closed=True)
    pre = None
    if kind == 2:
        pre = mk_stack()
        fn.attrs["__ptera_stack__"] = pre
    st, r = run(it, it.get_global(O, "_tooler"), [fn, caps])
    c.prove("tooler/no-raise", st == "ok" and r is fn)
    stack = fn.attrs.get("__ptera_stack__")
    if kind == 2:
        c.prove("tooler/reuses-stack", stack is pre and created == [])
    else:
        c.prove("tooler/creates-stack-once", len(created) == 1 and stack is created[0][2] and created[0][0][0] is fn)
    c.prove("tooler/one-push", events == [("push", caps)])
    st, r = run(it, it.get_global(O, "_untooler"), [fn, caps])
    c.prove("untooler/one-pop", st == "ok" and r is fn and events == [("push", caps), ("pop", caps)] and fn.attrs.get("__ptera_stack__") is stack)


@unit("autotool", ["C05", "C10", "C18", "C07", "C13", "C17", "C02", "C11"], [O + ":autotool", S + ":Call.wrap_functions", S + ":verify"], mode="bounded",
      bound="selector trees of depth <= 2 with <= 2 children")
def u_autotool(c):
    """autotool(sel): one _tooler(function, captures) per Call level of the selector tree (pre-order), then verify;
    autotool(sel, undo=True): one _untooler per level, no verification.  If verification refuses the selector
    (SelectorError) the stacks must be left as they were (refusal leaves no trace)."""
    it = Interp(c)
    events = []

    fail_at = [None]  # index (in walk order) of a function that cannot be tooled (_tooler raises TypeError BEFORE pushing anything)

    def tooler(it_, f, a, k):
        if fail_at[0] is not None and sum(1 for e in events if e[0] == "tool") == fail_at[0]:
            events.append(("tool-refused", a[0], a[1]))
            raise PyRaise(TypeError("cannot be tooled"))
        events.append(("tool", a[0], a[1]))
        return a[0]

    def untooler(it_, f, a, k):
        events.append(("untool", a[0], a[1]))
        return a[0]

    it.policies[O + ":_tooler"] = tooler
    it.policies[O + ":_untooler"] = untooler
    bad = bool(c.choose(2))

    def verify(it_, f, a, k):
        events.append(("verify", a[0]))
        if bad:
            raise PyRaise(it_.instantiate(it_.get_global(S, "SelectorError"), ["refused"], {}))
        return a[0]

    it.policies[S + ":verify"] = verify
    Element = it.get_global(S, "Element")
    Call = it.get_global(S, "Call")
    absent = it.models.absent(it)

    def el(name):
        return it.call(Element, [], dict(name=name))

    fns = [SymObj(f"f{i}", Val.ref(z3.IntVal(c.new_id()))) for i in range(3)]
    caps0 = (el("x"),)
    nchild = c.choose(3)
    children = tuple(it.call(Call, [], dict(element=el(fns[1 + j]), captures=(el(f"y{j}"),))) for j in range(nchild))
    root = it.call(Call, [], dict(element=el(fns[0]), captures=caps0, children=children))
    undo = bool(c.choose(2))
    levels = [(fns[0], caps0)] + [(fns[1 + j], children[j].fields["captures"]) for j in range(nchild)]
    if not undo and not bad and c.choose(2, "a-function-cannot-be-tooled"):
        # the selector is refused PART-WAY: a function of the path is not a Python function.  Exactly the functions tooled so far are
        # untooled -- the ones after it were never pushed and may be instrumented for another, still active probe
        k_ = c.choose(len(levels), "which")
        fail_at[0] = k_
        st, r = run(it, it.get_global(O, "autotool"), [root], {})
        c.prove("refused-part-way/TypeError", st == "raise" and isinstance(r, TypeError))
        undone = [e for e in events if e[0] == "untool"]
        c.prove("refused-part-way/exactly-the-functions-tooled-so-far-are-untooled", len(undone) == k_ and all(
            e[1] is f and e[2] is cp for e, (f, cp) in zip(undone, reversed(levels[:k_]))), note=f"fail at {k_}: untooled {[e[1].name for e in undone]}", only=["C05", "C10", "C07", "C13", "C17", "C02", "C11"])
        return
    st, r = run(it, it.get_global(O, "autotool"), [root], dict(undo=undo))
    tag = "untool" if undo else "tool"
    tool_events = [e for e in events if e[0] != "verify"]
    n = len(levels)
    first = tool_events[:n]
    c.prove("walk/one-call-per-level-preorder", len(first) == n and all(e[0] == tag and e[1] is f and e[2] is cp for e, (f, cp) in zip(first, levels)))
    if undo:
        c.prove("undo/no-verify-no-raise", st == "ok" and not any(e[0] == "verify" for e in events) and len(tool_events) == n)
    elif bad:
        c.prove("refused/SelectorError", st == "raise" and exc_name(r) == "SelectorError")
        # from the property (C05/C10): a refused activation leaves no trace -> every push is undone, innermost first, after verify
        rest = tool_events[n:]
        c.prove("refused/leaves-no-instrumentation-behind", len(rest) == n and all(e[0] == "untool" and e[1] is f and e[2] is cp
                                                                                    for e, (f, cp) in zip(rest, reversed(levels))), only=["C05", "C10"])
        c.prove("refused/verify-ran-once-after-tooling", [e[0] for e in events].count("verify") == 1 and [e[0] for e in events].index("verify") == n)
    else:
        c.prove("ok/verified-after-tooling", st == "ok" and events[-1][0] == "verify" and events[-1][1] is r)
        c.prove("ok/result-is-selector-over-the-tooled-functions", isinstance(r, Obj) and r.cls is Call and r.fields["element"].fields["name"] is fns[0])


# ---------------------------------------------------------------------------------------------
# C17: Probe life cycle on top of giving.SourceProxy (interpreted from the installed giving/gvn.py)
# ---------------------------------------------------------------------------------------------
G = "giving.gvn"
ev_next = z3.Function("ev_on_next", Val, Val, Val)
ev_done = z3.Function("ev_on_completed", Val, Val)


def _giving_hooks(it):
    def create(it_, a, k):
        return SymObj("observable", Val.ref(z3.IntVal(it_.ctx.new_id())), attrs={"make": a[0]})

    rx = SymObj("rx", Val.ref(z3.IntVal(-5)), attrs={"create": SummaryFn("rx.create", create)})
    it.module_env(G).vars["rx"] = rx

    def hook(mod, name):
        if mod == "giving" and name == "SourceProxy":
            return it.get_global(G, "SourceProxy")
        return None

    prev = getattr(it, "import_hook", None)
    it.import_hook = lambda m, n: hook(m, n) or (prev(m, n) if prev else None)


def _observer(it, name, events):
    """An rx observer stub; attrs["is_stopped"] (a scenario may flip it) is its is_stopped flag: a stage that finished early (take(1),
    first()) -- telling it more is harmless, telling the OTHER observers less is not."""
    def on_next(it_, a, k):
        events.append((name, "next", a[0]))

    def on_completed(it_, a, k):
        events.append((name, "completed"))

    return SymObj(name, Val.ref(z3.IntVal(it.ctx.new_id())), attrs={"on_next": SummaryFn("on_next", on_next), "on_completed": SummaryFn("on_completed", on_completed), "is_stopped": False})


@unit("Probe.lifecycle", ["C17", "C05"], [P + ":Probe.__init__", P + ":Probe._enter", P + ":Probe._exit", P + ":Probe._emit", P + ":Probe._make_rule",
                                          P + ":Probe._make_emitter", P + ":Probe._install_tooling", P + ":Probe._uninstall_tooling",
                                          P + ":Probe.activate", P + ":Probe.deactivate", P + ":Probe.__exit__",
                                          G + ":SourceProxy.__init__", G + ":SourceProxy._push", G + ":SourceProxy.__enter__", G + ":SourceProxy.__exit__"],
      assumed=["reactivex.create(make): subscribing calls make(observer, scheduler) once (observers are attached by calling make directly)",
               "autotool is used through ghost events (its contract is the 'autotool' unit)"])
def u_probe_lifecycle(c):
    """A probe: opens once (second activation refused, nothing disturbed), delivers each emitted event exactly once to
    every observer attached so far (late observers see later events only), completes every observer exactly once on
    exit (normal or exceptional), then is silent; activation installs tooling then the overlay, deactivation removes
    the overlay, then the registration, then the tooling."""
    it = Interp(c)
    _giving_hooks(it)
    events = []

    def autotool(it_, f, a, k):
        events.append(("autotool", a[0], bool(k.get("undo", False))))
        return a[0]

    it.policies[O + ":autotool"] = autotool
    Element = it.get_global(S, "Element")
    Call = it.get_global(S, "Call")
    fnobj = SymObj("f", Val.ref(z3.IntVal(c.new_id())))
    sel = it.call(Call, [], dict(element=it.call(Element, [], dict(name=fnobj)),
                                captures=(it.call(Element, [], dict(name="a", capture="a", tags=frozenset({1}))),)))
    Probe = it.get_global(P, "Probe")
    raw = bool(c.choose(2))
    prb = it.call(Probe, [sel], dict(raw=raw))
    HC = it.get_global(O, "HandlerCollection")
    var = HC.attrs["current"]
    gp = it.get_global(P, "global_probes")
    c.prove("new/not-activated-no-observers", prb.fields["_activated"] is False and prb.fields["_observers"] == [] and prb.fields["_root"] is prb)
    c.prove("new/immediate-rule-with-emitter", len(prb.fields["_ol"].fields["handlers"]) == 1 and prb.fields["_ol"].fields["handlers"][0].cls.name == "Immediate")
    make = prb.fields["_obs"].attrs["make"]
    o1 = _observer(it, "o1", events)
    it.call(make, [o1, None], {})
    cap = mk_obj(it, "ptera.interpret", "Capture", element=None, capture="a", names=["a"], values=[c.val("v0")])
    # --- activation
    st, r = run(it, it.getattr(prb, "__enter__"), [])
    c.prove("enter/no-raise", st == "ok" and r is prb)
    c.prove("enter/tooling-installed-once-per-selector", events == [("autotool", sel, False)])
    c.prove("enter/activated-registered-overlay-installed", prb.fields["_activated"] is True and prb in gp and isinstance(var.value, Obj)
            and len(var.value.fields["handler_pairs"]) == 1 and var.value.fields["handler_pairs"][0][1] is prb.fields["_ol"].fields["handlers"][0])
    del events[:]
    # --- an event
    d1 = {"a": cap}
    st, r = run(it, it.getattr(prb, "_emit"), [d1])
    c.prove("emit/returns-ABSENT", st == "ok" and r is it.models.absent(it))
    c.prove("emit/once-per-observer", len(events) == 1 and events[0][0] == "o1" and events[0][1] == "next")
    if len(events) == 1:
        payload = events[0][2]
        if raw:
            c.prove("emit/raw-payload-is-captures", payload is d1)
        else:
            c.prove("emit/payload-is-values", isinstance(payload, dict) and set(payload) == {"a"} and payload["a"] is cap.fields["values"][0])
    del events[:]
    # --- late subscriber sees later events only
    o2 = _observer(it, "o2", events)
    it.call(make, [o2, None], {})
    c.prove("late-subscriber/no-replay", events == [])
    st, r = run(it, it.getattr(prb, "_emit"), [d1])
    c.prove("emit2/each-observer-once-in-order", [e[:2] for e in events] == [("o1", "next"), ("o2", "next")])
    del events[:]
    # --- a stage that finished early (take(1), first()) costs the stages attached after it nothing
    o1.attrs["is_stopped"] = True
    st, r = run(it, it.getattr(prb, "_emit"), [d1])
    c.prove("emit3/observer-after-a-stopped-one-still-told", st == "ok" and [e[:2] for e in events if e[0] != "o1"] == [("o2", "next")], note=str([e[:2] for e in events]))
    del events[:]
    o1.attrs["is_stopped"] = False
    if o1 not in prb.fields["_observers"]:  # a stopped stage may be forgotten; the later clauses count its completion
        prb.fields["_observers"].insert(0, o1)
    # --- second activation attempt
    snap = (var.value, set(gp), list(prb.fields["_observers"]))
    st, r = run(it, it.getattr(prb, "__enter__"), [])
    c.prove("re-enter/refused", st == "raise")
    c.prove("re-enter/disturbs-nothing", events == [] and var.value is snap[0] and set(gp) == snap[1] and prb.fields["_observers"] == snap[2]
            and prb.fields["_activated"] is True)
    # --- deactivation (normal or by exception)
    exc = c.choose(2)
    args = [None, None, None] if not exc else [ValueError, ValueError("x"), None]
    if c.choose(2, "completion-raises"):
        # a subscriber raises when the stream completes (e.g. min() over no element): the with-block is left by that exception,
        # and -- from the property -- a block left by an exception leaves nothing installed and completes the stream all the same
        from pvc.units import UserError

        def bad_completed(it_, a, k):
            events.append(("o1", "completed"))
            raise PyRaise(UserError("completion"))

        o1.attrs["on_completed"] = SummaryFn("on_completed", bad_completed)
        st, r = run(it, it.getattr(prb, "__exit__"), args)
        c.prove("exit-with-failing-subscriber/error-propagates", st == "raise" and isinstance(r, UserError))
        c.prove("exit-with-failing-subscriber/every-observer-completed-once-then-untooled",
                events == [("o1", "completed"), ("o2", "completed"), ("autotool", sel, True)], note=str([e[:2] for e in events]))
        c.prove("exit-with-failing-subscriber/overlay-and-registration-removed", var.value is None and prb not in gp and prb.fields["_observers"] == [])
        del events[:]
        st, r = run(it, it.getattr(prb, "_emit"), [d1])
        c.prove("exit-with-failing-subscriber/silent-afterwards", st == "ok" and events == [])
        return
    # an event caused while the stream is being completed (a subscriber that calls the probed function when it is told the result) is not
    # part of the active period: no stage that is still waiting for its completion receives it
    orig_done = o1.attrs["on_completed"]

    def done_then_emit(it_, a, k):
        r_ = it_.call(orig_done, a, k)
        it_.call(it_.getattr(prb, "_emit"), [d1], {})
        # ... and a subscriber that deactivates the probe when it is told the result (deactivation is already under way) changes nothing:
        # every stage is still completed exactly once, the tooling is removed once
        it_.call(it_.getattr(prb, "deactivate"), [], {})
        return r_

    o1.attrs["on_completed"] = SummaryFn("on_completed", done_then_emit)
    st, r = run(it, it.getattr(prb, "__exit__"), args)
    c.prove("exit/no-raise", st == "ok" and not it.truth(r))
    c.prove("exit/completes-each-observer-once-then-untools", events == [("o1", "completed"), ("o2", "completed"), ("autotool", sel, True)],
            note=str([e[:2] for e in events]))
    c.prove("exit/overlay-and-registration-removed", var.value is None and prb not in gp and prb.fields["_observers"] == [])
    del events[:]
    # --- silent afterwards
    st, r = run(it, it.getattr(prb, "_emit"), [d1])
    c.prove("after-exit/silent", st == "ok" and events == [])
    st, r = run(it, it.getattr(prb, "__enter__"), [])
    c.prove("after-exit/cannot-reopen", st == "raise" and events == [])
    # --- the stream is completed exactly ONCE: a second deactivation (deactivate() inside the with-block followed by the end of the
    # block, deactivate() called twice) completes nothing again -- a stage attached in between would otherwise publish a result for a
    # period in which nothing was delivered -- removes no tooling a second time and does not fail
    o3 = _observer(it, "o3", events)
    it.call(make, [o3, None], {})
    # ... and what is emitted after deactivation (an activation that began while the probe was active and goes on afterwards: a generator)
    # does not reach a stage attached afterwards either
    st, r = run(it, it.getattr(prb, "_emit"), [d1])
    c.prove("after-exit/silent-for-stages-attached-afterwards", st == "ok" and events == [], note=str([e[:2] for e in events]))
    snap = (var.value, set(gp))
    st, r = run(it, it.getattr(prb, "__exit__"), [None, None, None])
    c.prove("second-deactivation/does-nothing-and-does-not-fail", st == "ok" and events == [] and var.value is snap[0] and set(gp) == snap[1],
            note=f"{st} {r!r} {[e[:2] for e in events]}")


sp_obs = z3.Function("sp_obs", z3.IntSort(), z3.IntSort())


@unit("SourceProxy.fanout", ["C17", "C02"], [G + ":SourceProxy._push", G + ":SourceProxy.__exit__", P + ":Probe.__exit__"])
def u_fanout(c):
    """For ANY number of observers: _push(d) calls on_next(d) exactly once per observer in order; root __exit__ calls
    on_completed exactly once per observer in order, then clears the list, then _exit() -- independently of the exception."""
    from pvc.fold import Fold
    Fold.bounded = False
    it = Interp(c)
    _giving_hooks(it)
    n = z3.Int("n")
    c.inputs["n"] = SInt(n)
    c.assume(n >= 0)
    data = c.val("data")
    cleared = []

    def elem(i):
        me = Val.ref(sp_obs(i))

        def on_next(it_, a, k):
            it_.ctx.emit(ev_next(me, it_.to_val(a[0])))

        def on_completed(it_, a, k):
            it_.ctx.emit(ev_done(me))

        return SymObj("obs", me, attrs={"on_next": SummaryFn("on_next", on_next), "on_completed": SummaryFn("on_completed", on_completed)})

    obs = SymSeq("observers", n, elem)
    obs_attrs_clear = SummaryFn("clear", lambda it_, a, k: cleared.append(it_.ctx.log))
    seqobj = SymObj("observers", Val.ref(z3.IntVal(c.new_id())), attrs={"clear": obs_attrs_clear})
    NX = Fold("NX", Log, log_nil, lambda i, acc: log_snoc(acc, ev_next(Val.ref(sp_obs(i)), data.t)))
    which = c.choose(3)
    SP = it.get_global(G, "SourceProxy")
    exits = []
    prox = Obj(SP, c.new_id())
    prox.fields["_root"] = prox
    prox.fields["_observers"] = obs
    if which == 0:
        it.loopspecs = {(G + ":SourceProxy._push", 0): LoopSpec(ghost=lambda it_, env, i: NX.at(i), axioms=lambda it_, env, i: NX.axioms(i))}
        st, r = run(it, it.getattr(prox, "_push"), [data])
        c.prove("push/no-raise", st == "ok")
        c.prove("push/on_next-once-each-in-order", c.log == NX.at(n))
    else:
        DN = Fold("DN", Log, log_nil, lambda i, acc: log_snoc(acc, ev_done(Val.ref(sp_obs(i)))))
        it.loopspecs = {(G + ":SourceProxy.__exit__", 0): LoopSpec(ghost=lambda it_, env, i: DN.at(i), axioms=lambda it_, env, i: DN.axioms(i))}
        # list.clear on the symbolic observer list and the subclass hook are observed through ghost calls
        import pvc.models as M_
        orig = M_.symseq_attr

        def symseq_attr(it_, o, name):
            if o is obs and name == "clear":
                return SummaryFn("clear", lambda it__, a, k: cleared.append(it__.ctx.log))
            return orig(it_, o, name)

        it.models = type("ModelsProxy", (), {**{k: getattr(M_, k) for k in dir(M_)}, "symseq_attr": staticmethod(symseq_attr)})
        if which == 2:
            # the root __exit__ a probe actually runs (ptera overrides giving's): same contract when no subscriber raises
            PR = it.get_global(P, "Probe")
            it.loopspecs = {(P + ":Probe.__exit__", 0): LoopSpec(ghost=lambda it_, env, i: DN.at(i), axioms=lambda it_, env, i: DN.axioms(i))}
            prox.cls = ClassV("Probe_sub", P, PR.node, [PR], PR.env)
            it.get_global(P, "global_probes").add(prox)  # an ACTIVE probe (a second deactivation does nothing: unit Probe.lifecycle)
            prox.fields["_live"] = True
        else:
            prox.cls = ClassV("SP_sub", G, SP.node, [SP], SP.env)
        prox.cls.attrs["_exit"] = SummaryFn("_exit", lambda it_, a, k: exits.append(it_.ctx.log))
        exc = c.choose(2)
        st, r = run(it, it.getattr(prox, "__exit__"), [None, None, None] if not exc else [ValueError, ValueError("x"), None])
        c.prove("exit/no-raise", st == "ok")
        c.prove("exit/on_completed-once-each-in-order", c.log == DN.at(n))
        c.prove("exit/then-cleared-then-_exit", len(cleared) == 1 and len(exits) == 1)


@unit("OverridableProbe.emit", ["C04", "C12", "C16"], [P + ":OverridableProbe._emit", P + ":OverridableProbe.override", P + ":OverridableProbe.koverride",
                                                 P + ":Probe._emit", G + ":SourceProxy._push", G + ":ObservableProxy.subscribe"],
      assumed=["reactivex: observable.subscribe(fn) attaches an observer whose on_next(x) calls fn(x) synchronously; a pipeline stage that filters an event simply does not call on_next"])
def u_overridable_emit(c):
    """OverridableProbe._emit hands back, for EACH binding, the value an override subscriber wrote for THAT binding and
    ABSENT (decline) when no subscriber wrote one: a value supplied for an earlier binding is never re-used."""
    it = Interp(c)
    _giving_hooks(it)
    gate = {"open": True}
    rx = it.module_env(G).vars["rx"]

    def create(it_, a, k):
        make = a[0]

        def subscribe(it__, aa, kk):
            fn = aa[0]

            def on_next(it3, a3, k3):
                if gate["open"]:
                    return it3.call(fn, [a3[0]], {})

            obs = SymObj("observer", Val.ref(z3.IntVal(it__.ctx.new_id())), attrs={"on_next": SummaryFn("on_next", on_next),
                                                                                 "on_completed": SummaryFn("on_completed", lambda *x: None)})
            it__.call(make, [obs, None], {})
            return SymObj("disposable", Val.ref(z3.IntVal(it__.ctx.new_id())), attrs={"dispose": SummaryFn("dispose", lambda *x: None)})

        return SymObj("observable", Val.ref(z3.IntVal(it_.ctx.new_id())), attrs={"make": make, "subscribe": SummaryFn("subscribe", subscribe)})

    rx.attrs["create"] = SummaryFn("rx.create", create)
    it.policies[O + ":autotool"] = lambda it_, f, a, k: a[0]
    Element = it.get_global(S, "Element")
    Call = it.get_global(S, "Call")
    fnobj = SymObj("f", Val.ref(z3.IntVal(c.new_id())))
    sel = it.call(Call, [], dict(element=it.call(Element, [], dict(name=fnobj)),
                                captures=(it.call(Element, [], dict(name="a", capture="a", tags=frozenset({1}))),)))
    OP = it.get_global(P, "OverridableProbe")
    prb = it.call(OP, [sel], {})
    absent = it.models.absent(it)
    cap = mk_obj(it, "ptera.interpret", "Capture", element=None, capture="a", names=["a"], values=[c.val("v0")])
    d1 = {"a": cap}
    # a probe that is not active overrides nothing (an activation that began while it was, resumed after it was deactivated)
    c.prove("new-probe-is-not-live", prb.fields.get("_live") is False)
    prb.fields["_live"] = True  # the active period (what _enter does; the life cycle is the unit Probe.lifecycle)
    st, r0 = run(it, it.getattr(prb, "_emit"), [d1])
    c.prove("no-subscriber/declines", st == "ok" and r0 is absent)
    kw = bool(c.choose(2, "koverride"))
    setter = callback(it, "setter", pure=True)
    if kw:
        st, _ = run(it, it.getattr(prb, "koverride"), [SummaryFn("ksetter", lambda it_, a, k: it_.call(setter, [k.get("a")], {}))])
    else:
        st, _ = run(it, it.getattr(prb, "override"), [setter])
    c.prove("override/subscribes", st == "ok" and len(prb.fields["_observers"]) == 1)
    st, r1 = run(it, it.getattr(prb, "_emit"), [d1])
    c.prove("first-binding/override-applies", st == "ok" and r1 is not absent and isinstance(r1, Sym))
    # a setter that is not callable is the VALUE to store -- whatever it is (None, 0, False and '' included); without an
    # argument the value that reaches the end of the pipeline is stored as it is
    consts = [None, 0, False, "", 10]
    kk = c.choose(len(consts) + 1, "constant-setter")
    prb2 = it.call(OP, [sel], {})
    prb2.fields["_live"] = True
    if kk < len(consts):
        st, _ = run(it, it.getattr(prb2, "override"), [consts[kk]])
        c.prove("override-constant/subscribes", st == "ok" and len(prb2.fields["_observers"]) == 1)
        st, rc = run(it, it.getattr(prb2, "_emit"), [d1])
        same = rc is consts[kk] or (type(rc) is type(consts[kk]) and rc == consts[kk])
        c.prove("override-constant/the-given-constant-is-stored", st == "ok" and same, note=f"override({consts[kk]!r}) stored {rc!r}")
    else:
        st, _ = run(it, it.getattr(prb2, "override"), [])
        st, rc = run(it, it.getattr(prb2, "_emit"), [d1])
        c.prove("override-no-argument/the-stream-value-is-stored", st == "ok" and isinstance(rc, dict) and set(rc) == {"a"} and rc["a"] is cap.fields["values"][0])
    gate["open"] = False  # the pipeline filters the next event: the override declines for that binding
    st, r2 = run(it, it.getattr(prb, "_emit"), [d1])
    c.prove("later-binding/declined-binding-is-untouched(no stale value)", st == "ok" and r2 is absent)
    gate["open"] = True
    st, r3 = run(it, it.getattr(prb, "_emit"), [d1])
    c.prove("third-binding/override-applies-again", st == "ok" and r3 is not absent)


@unit("Probe.multi-selector", ["C05", "C07", "C17", "C02", "C10", "C11", "C14"], [P + ":Probe.__init__", P + ":Probe._make_rule", P + ":Probe._enter", P + ":Probe._exit",
                                                             P + ":Probe._install_tooling", P + ":Probe._uninstall_tooling"], mode="bounded",
      bound="one probe given 3 selectors, each with or without a focus, every probe_type, autotool refusing at any position or not at all",
      assumed=["autotool is used through ghost events (its own contract -- a refused selector leaves nothing behind -- is the 'autotool' unit)"])
def u_probe_multi(c):
    """A probe given several selectors: rule i belongs to selector i and its kind is decided by THAT selector alone (no focus
    -> total, one record per outermost call; focus -> immediate; forced total -> total).  Activation tools each selector
    once; if autotool refuses selector k the exception propagates, selectors 0..k-1 are undone exactly once each, selectors
    after k are not touched (their instrumentation count must not be decremented), and nothing is installed or registered.
    Deactivation undoes each selector exactly once."""
    it = Interp(c)
    _giving_hooks(it)
    events = []
    N = 3
    refuse_at = c.choose(N + 1, "refuse_at")  # N = nobody refuses

    Element = it.get_global(S, "Element")
    Call = it.get_global(S, "Call")
    sels, focus = [], []
    for i in range(N):
        fo = bool(c.choose(2, f"focus{i}"))
        focus.append(fo)
        fnobj = SymObj(f"f{i}", Val.ref(z3.IntVal(c.new_id())))
        cap = it.call(Element, [], dict(name="a", capture="a", tags=frozenset({1}) if fo else frozenset()))
        sels.append(it.call(Call, [], dict(element=it.call(Element, [], dict(name=fnobj)), captures=(cap,))))
    if c.choose(2, "same-selector-given-twice"):
        # selectors are interned: a probe given the same selector twice (by name and by reference, say) holds the SAME object twice; it
        # is tooled once per occurrence and undone once per occurrence (the counts of the functions stay balanced)
        sels[2] = sels[0]
        focus[2] = focus[0]
    count = {id(s): 0 for s in sels}
    negative = []
    first_seen = []

    def autotool(it_, f, a, k):
        undo = bool(k.get("undo", False))
        events.append(("autotool", a[0], undo))
        first_seen.append(a[0]) if not undo else None
        nth = sum(1 for x in first_seen if x is a[0])
        idx_refused = refuse_at if refuse_at < N else -1
        is_refused_occurrence = idx_refused >= 0 and a[0] is sels[idx_refused] and nth == sum(1 for x in sels[:idx_refused + 1] if x is sels[idx_refused])
        if not undo and is_refused_occurrence:
            # contract of autotool: a refused selector leaves no trace (its own pushes are undone before the error propagates)
            raise PyRaise(it_.instantiate(it_.get_global(S, "SelectorError"), ["refused"], {}))
        count[id(a[0])] += -1 if undo else 1
        if count[id(a[0])] < 0:
            negative.append(a[0])
        return a[0]

    it.policies[O + ":autotool"] = autotool
    ptype = [None, "total", "immediate"][c.choose(3, "probe_type")]
    Probe = it.get_global(P, "Probe")
    st, prb = run(it, Probe, sels, dict(probe_type=ptype))
    c.prove("new/no-raise", st == "ok")
    if st != "ok":
        return
    rules = prb.fields["_ol"].fields["handlers"]
    c.prove("new/one-rule-per-selector-in-order", len(rules) == N and all(rules[i].fields["selector"] is sels[i] for i in range(N)))
    if len(rules) != N:
        return
    for i in range(N):
        if ptype == "total" or (ptype is None and not focus[i]):
            c.prove(f"new/rule{i}/focus-free-or-forced-total-selector-gets-a-total-rule", rules[i].cls.name == "Total")
        elif focus[i]:
            c.prove(f"new/rule{i}/focused-selector-gets-an-immediate-rule", rules[i].cls.name == "Immediate")
    HC = it.get_global(O, "HandlerCollection")
    var = HC.attrs["current"]
    gp = it.get_global(P, "global_probes")
    st, r = run(it, it.getattr(prb, "__enter__"), [])
    if refuse_at < N:
        c.prove("refused/error-propagates", st == "raise" and exc_name(r) == "SelectorError")
        c.prove("refused/no-count-ever-negative", not negative)
        c.prove("refused/every-count-back-to-zero", all(v == 0 for v in count.values()))
        later = [s for s in sels[refuse_at + 1:] if not any(s is t for t in sels[:refuse_at + 1])]
        c.prove("refused/selectors-after-the-refused-one-untouched", all(e[1] is not s for e in events for s in later))
        c.prove("refused/nothing-installed-or-registered", var.value is None and prb not in gp)
        return
    c.prove("enter/no-raise", st == "ok")
    c.prove("enter/each-selector-tooled-once-per-occurrence-in-order", len(events) == N and all(e[1] is s and e[2] is False for e, s in zip(events, sels)))
    c.prove("enter/overlay-installed-with-all-rules", isinstance(var.value, Obj) and [p[1] for p in var.value.fields["handler_pairs"]] == list(rules) and prb in gp)
    del events[:]
    st, r = run(it, it.getattr(prb, "__exit__"), [None, None, None])
    c.prove("exit/no-raise", st == "ok")
    c.prove("exit/each-selector-undone-once-per-occurrence", sorted(id(e[1]) for e in events) == sorted(id(s) for s in sels) and all(e[2] for e in events) and not negative
            and all(v == 0 for v in count.values()))
    c.prove("exit/nothing-left", var.value is None and prb not in gp)
