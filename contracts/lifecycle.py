"""C05 / C17 (and parts of C14): instrumentation stacks, tooling, probe life cycle."""
import collections

import z3

from pvc.units import (unit, mk_obj, term_of, run, callback, calls_of, LoopSpec, Interp, PyRaise, SymObj,
                       SymSeq, SummaryFn, Obj, Sym, SInt, SBool, SStr, SVal, Val, concretize, exc_name)
from pvc.values import FuncV, ClassV
from pvc.sym import Log, log_nil, log_snoc, ret_of
from pvc.world import World

TR = "ptera.transform"
O = "ptera.overlay"
P = "ptera.probe"
S = "ptera.selector"


def _elements(it, k=3):
    return [SymObj(f"e{i}", Val.ref(z3.IntVal(it.ctx.new_id()))) for i in range(k)]


def _choose_tuple(c, els, maxlen=2):
    n = c.choose(maxlen + 1)
    return tuple(els[c.choose(len(els))] for _ in range(n))


def _tset_stub(it, log):
    """TransformSet through its contract: transform_for(caps) is a function of (None | the SET of captures)."""
    variants = {}

    def tf(it_, a, k):
        caps = a[1]
        key = None if caps is None else frozenset(caps)
        log.append(("transform_for", caps if caps is None else list(caps)))
        if key not in variants:
            nm = "base" if key is None else "variant{" + ",".join(sorted(x.name for x in key)) + "}"
            variants[key] = tuple(SymObj(f"{nm}.{part}", Val.ref(z3.IntVal(it_.ctx.new_id()))) for part in ("fn", "code", "info", "token"))
        return variants[key]

    s = SummaryFn("transform_for", tf)
    s.is_method = True
    return SymObj("tset", Val.ref(z3.IntVal(it.ctx.new_id())), attrs={"transform_for": s}), variants


@unit("StackedTransforms", ["C05"], [TR + ":StackedTransforms.__init__", TR + ":StackedTransforms.push", TR + ":StackedTransforms.pop",
                                     TR + ":StackedTransforms.get"])
def u_stack(c):
    """Abstract view: a multiset Act of pushed capture tuples.  well_formed: instrument_count = |Act| and
    captures[e] = number of occurrences of e in Act (for ANY such state, symbolic counters, zero-count keys allowed).
    push(t): Act+{t}; pop(t) (t in Act): Act-{t}; get(): base variant iff Act is empty, else the variant for
    exactly {e | captures[e] > 0}.  One step from an arbitrary well-formed state => holds after every history."""
    it = Interp(c)
    els = _elements(it)
    log = []
    tset, variants = _tset_stub(it, log)
    st0 = it.call(it.get_global(TR, "StackedTransforms"), [tset], {})
    c.prove("init/empty", st0.fields["instrument_count"] == 0 and len(st0.fields["captures"]) == 0 and st0.fields["tset"] is tset)
    # arbitrary well-formed state
    ic = c.int("ic")
    ks = [c.int(f"k{i}") for i in range(3)]
    c.assume(ic.t >= 0)
    cnt = collections.Counter()
    present = []
    for i, e in enumerate(els):
        if c.choose(2):  # key present in the Counter (possibly with count zero: Counter keeps zero entries)
            cnt[e] = ks[i]
            present.append(i)
            c.assume(ks[i].t >= 0)
        else:
            c.assume(ks[i].t == 0)
    c.assume(z3.Implies(ic.t == 0, z3.And(*[k.t == 0 for k in ks])))  # Act empty => no occurrences
    stk = mk_obj(it, TR, "StackedTransforms", tset=tset, instrument_count=ic, captures=cnt)
    op = c.choose(3)
    t = _choose_tuple(c, els)
    occ = [sum(1 for x in t if x is e) for e in els]

    def count_of(i):
        v = stk.fields["captures"].get(els[i], 0)
        return it._arith(v)

    if op == 0:
        st, _ = run(it, it.getattr(stk, "push"), [t])
        c.prove("push/no-raise", st == "ok")
        c.prove("push/count", it._arith(stk.fields["instrument_count"]) == ic.t + 1)
        c.prove("push/occurrences", z3.And(*[count_of(i) == ks[i].t + occ[i] for i in range(3)]))
    elif op == 1:
        # requires t in Act
        c.assume(ic.t >= 1)
        for i in range(3):
            c.assume(ks[i].t >= occ[i])
            if occ[i] and i not in present:
                raise_path = True
        st, _ = run(it, it.getattr(stk, "pop"), [t])
        c.prove("pop/no-raise", st == "ok")
        c.prove("pop/count", it._arith(stk.fields["instrument_count"]) == ic.t - 1)
        c.prove("pop/occurrences", z3.And(*[count_of(i) == ks[i].t - occ[i] for i in range(3)]))
    else:
        st, res = run(it, it.getattr(stk, "get"), [])
        c.prove("get/no-raise", st == "ok")
        c.prove("get/one-lookup", len(log) == 1)
        if log:
            caps = log[0][1]
            if caps is None:
                c.prove("get/base-iff-nothing-active", ic.t == 0)
            else:
                conj = [ic.t > 0]
                for i, e in enumerate(els):
                    inn = any(x is e for x in caps)
                    conj.append(ks[i].t > 0 if inn else ks[i].t <= 0)
                conj.append(z3.BoolVal(len(caps) == len(set(id(x) for x in caps))))
                c.prove("get/variant-for-exactly-the-active-captures", z3.And(*conj))
        c.prove("get/frame", stk.fields["instrument_count"] is ic and stk.fields["captures"] is cnt)


@unit("SyncedStackedTransforms", ["C05", "C14"], [TR + ":SyncedStackedTransforms.push", TR + ":SyncedStackedTransforms.pop",
                                                 TR + ":SyncedStackedTransforms._apply", TR + ":StackedTransforms.get"],
      assumed=["codefind.code_registry.update_cache_entry is used through a ghost event (its effect on resolution is specified under C14)"])
def u_synced(c):
    """After EVERY push/pop from an arbitrary well-formed state, the target function runs exactly the variant that get()
    selects for the new state: __code__, __ptera_info__, __ptera_token__ installed, __ptera_discard__ False,
    globals[token] is the function, and the code registry was told (fn, old code, new code) before the swap.
    In particular when the last probe is popped the base (original) code is installed again."""
    it = Interp(c)
    els = _elements(it)
    log = []
    tset, variants = _tset_stub(it, log)
    reg = []

    def uce(it_, a, k):
        reg.append(tuple(a))

    registry = SymObj("code_registry", Val.ref(z3.IntVal(c.new_id())), attrs={"update_cache_entry": SummaryFn("update_cache_entry", uce)})
    it.import_hook = lambda mod, name: registry if (mod, name) == ("codefind", "code_registry") else None
    ic = c.int("ic")
    ks = [c.int(f"k{i}") for i in range(3)]
    c.assume(ic.t >= 0)
    cnt = collections.Counter()
    for i, e in enumerate(els):
        if c.choose(2):
            cnt[e] = ks[i]
            c.assume(ks[i].t >= 0)
        else:
            c.assume(ks[i].t == 0)
    c.assume(z3.Implies(ic.t == 0, z3.And(*[k.t == 0 for k in ks])))
    glb = {}
    oldcode = SymObj("installed_code", Val.ref(z3.IntVal(c.new_id())))
    fn = SymObj("target", Val.ref(z3.IntVal(c.new_id())), attrs={"__code__": oldcode, "__globals__": glb}, closed=True)
    stk = mk_obj(it, TR, "SyncedStackedTransforms", tset=tset, instrument_count=ic, captures=cnt, target=fn, conformer=None)
    op = c.choose(2)
    t = _choose_tuple(c, els)
    occ = [sum(1 for x in t if x is e) for e in els]
    if op == 1:
        c.assume(ic.t >= 1)
        for i in range(3):
            c.assume(ks[i].t >= occ[i])
    st, _ = run(it, it.getattr(stk, "push" if op == 0 else "pop"), [t])
    c.prove("no-raise", st == "ok")
    new_ic = ic.t + (1 if op == 0 else -1)
    newk = [ks[i].t + (occ[i] if op == 0 else -occ[i]) for i in range(3)]
    c.prove("apply/one-variant-lookup", len(log) == 1)
    if len(log) == 1:
        caps = log[0][1]
        key = None if caps is None else frozenset(caps)
        var = variants[key]
        if caps is None:
            c.prove("apply/base-code-iff-no-probe-left", new_ic == 0)
        else:
            conj = [new_ic > 0]
            for i, e in enumerate(els):
                conj.append(newk[i] > 0 if any(x is e for x in caps) else newk[i] <= 0)
            c.prove("apply/variant-for-exactly-the-active-captures", z3.And(*conj))
        c.prove("apply/installed", fn.attrs.get("__code__") is var[1] and fn.attrs.get("__ptera_info__") is var[2] and fn.attrs.get("__ptera_token__") is var[3])
        c.prove("apply/not-discarded", fn.attrs.get("__ptera_discard__") is False)
        c.prove("apply/self-reference", glb.get(var[3]) is fn and len(glb) == 1)
        c.prove("apply/registry-told-before-swap", len(reg) == 1 and reg[0][0] is fn and reg[0][1] is oldcode and reg[0][2] is var[1])


@unit("TransformSet", ["C05", "C14"], [TR + ":TransformSet.__init__", TR + ":TransformSet._set_base", TR + ":TransformSet._register",
                                      TR + ":TransformSet.transform_for"],
      assumed=["types.FunctionType(code, globals, name, argdefs, closure) creates a new function object sharing the code object",
               "transform() is used through a ghost call (its own contract is the transformer schema, C01)"])
def u_tset(c):
    """transform_for(None) is the tuple registered at creation: (fn, the code fn had at that moment, its info, its token);
    the private copy sharing that code is marked __ptera_discard__; transform_for(caps) transforms the base copy once per
    distinct capture SET (memo keyed by frozenset) with to_instrument = that set."""
    it = Interp(c)
    made = []

    def functype(it_, a, k):
        o = SymObj("base_function", Val.ref(z3.IntVal(it_.ctx.new_id())), attrs=dict(k))
        made.append(o)
        return o

    types_ns = SymObj("types", Val.ref(z3.IntVal(-3)), attrs={"FunctionType": SummaryFn("FunctionType", functype)})
    it.module_env(TR).vars["types"] = types_ns
    tcalls = []

    def transform_summary(it_, f, args, kwargs):
        tcalls.append((args, kwargs))
        return SymObj("transformed", Val.ref(z3.IntVal(it_.ctx.new_id())), attrs={
            "__code__": SymObj("tcode", Val.ref(z3.IntVal(it_.ctx.new_id()))),
            "__ptera_info__": SymObj("tinfo", Val.ref(z3.IntVal(it_.ctx.new_id()))),
            "__ptera_token__": SymObj("ttoken", Val.ref(z3.IntVal(it_.ctx.new_id())))})

    it.policies[TR + ":transform"] = transform_summary
    code0 = SymObj("code0", Val.ref(z3.IntVal(c.new_id())))
    fn = SymObj("fn", Val.ref(z3.IntVal(c.new_id())), attrs={"__code__": code0, "__globals__": {}, "__name__": "f", "__defaults__": None, "__closure__": None}, closed=True)
    proceed = SymObj("proceed", Val.ref(z3.IntVal(c.new_id())))
    ts = it.call(it.get_global(TR, "TransformSet"), [fn, proceed], dict(set_conformer=False))
    c.prove("base/private-copy-shares-code-and-is-discarded", len(made) == 1 and made[0].attrs.get("code") is code0
            and made[0].attrs.get("__ptera_discard__") is True and ts.fields["base_function"] is made[0])
    st, base = run(it, it.getattr(ts, "transform_for"), [None])
    c.prove("base/no-raise", st == "ok")
    c.prove("base/original-function-and-code", isinstance(base, tuple) and base[0] is fn and base[1] is code0 and base[2] is None and base[3] is None)
    c.prove("base/no-transform", tcalls == [])
    els = _elements(it, 2)
    a = _choose_tuple(c, els)
    st, v1 = run(it, it.getattr(ts, "transform_for"), [list(a)])
    c.prove("variant/no-raise", st == "ok")
    c.prove("variant/transforms-base-copy-once", len(tcalls) == 1 and tcalls[0][0][0] is made[0]
            and tcalls[0][1].get("proceed") is proceed and tcalls[0][1].get("to_instrument") == frozenset(a) and tcalls[0][1].get("set_conformer") is False)
    if len(tcalls) == 1 and st == "ok":
        c.prove("variant/tuple", v1[1] is v1[0].attrs["__code__"] and v1[2] is v1[0].attrs["__ptera_info__"] and v1[3] is v1[0].attrs["__ptera_token__"])
    b = tuple(reversed(a)) + (a[:1] if a else ())  # same SET, different order / repetition
    st, v2 = run(it, it.getattr(ts, "transform_for"), [list(b)])
    c.prove("variant/memo-by-set", st == "ok" and v2 is v1 and len(tcalls) == 1)
    st, base2 = run(it, it.getattr(ts, "transform_for"), [None])
    c.prove("base/stable", base2 is base)


@unit("tooler", ["C05", "C10", "C18"], [O + ":_tooler", O + ":_untooler"])
def u_tooler(c):
    """_tooler(fn, caps): TypeError iff fn has no __code__ (nothing modified); otherwise the function's stack (created on
    first use, reused afterwards) receives exactly one push(caps).  _untooler: exactly one pop(caps) iff a stack exists."""
    it = Interp(c)
    events = []

    def mk_stack():
        def push(it_, a, k):
            events.append(("push", a[0]))

        def pop(it_, a, k):
            events.append(("pop", a[0]))

        return SymObj("stack", Val.ref(z3.IntVal(c.new_id())), attrs={"push": SummaryFn("push", push), "pop": SummaryFn("pop", pop)})

    created = []

    def sst(it_, a, k):
        s = mk_stack()
        created.append((a, k, s))
        return s

    it.module_env(O).vars["SyncedStackedTransforms"] = SummaryFn("SyncedStackedTransforms", sst)
    kind = c.choose(3)
    caps = ("c1",)
    if kind == 0:
        fn = SymObj("notfn", Val.ref(z3.IntVal(c.new_id())), attrs={}, closed=True)
        st, r = run(it, it.get_global(O, "_tooler"), [fn, caps])
        c.prove("tooler/TypeError-for-non-function", st == "raise" and isinstance(r, TypeError) and events == [] and created == [] and fn.attrs == {})
        st, r = run(it, it.get_global(O, "_untooler"), [fn, caps])
        c.prove("untooler/noop-without-stack", st == "ok" and r is fn and events == [])
        return
    fn = SymObj("fn", Val.ref(z3.IntVal(c.new_id())), attrs={"__code__": SymObj("code", Val.ref(z3.IntVal(c.new_id())))}, closed=True)
    pre = None
    if kind == 2:
        pre = mk_stack()
        fn.attrs["__ptera_stack__"] = pre
    st, r = run(it, it.get_global(O, "_tooler"), [fn, caps])
    c.prove("tooler/no-raise", st == "ok" and r is fn)
    stack = fn.attrs.get("__ptera_stack__")
    if kind == 2:
        c.prove("tooler/reuses-stack", stack is pre and created == [])
    else:
        c.prove("tooler/creates-stack-once", len(created) == 1 and stack is created[0][2] and created[0][0][0] is fn)
    c.prove("tooler/one-push", events == [("push", caps)])
    st, r = run(it, it.get_global(O, "_untooler"), [fn, caps])
    c.prove("untooler/one-pop", st == "ok" and r is fn and events == [("push", caps), ("pop", caps)] and fn.attrs.get("__ptera_stack__") is stack)


@unit("autotool", ["C05", "C10", "C18"], [O + ":autotool", S + ":Call.wrap_functions", S + ":verify"], mode="bounded",
      bound="selector trees of depth <= 2 with <= 2 children")
def u_autotool(c):
    """autotool(sel): one _tooler(function, captures) per Call level of the selector tree (pre-order), then verify;
    autotool(sel, undo=True): one _untooler per level, no verification.  If verification refuses the selector
    (SelectorError) the stacks must be left as they were (refusal leaves no trace)."""
    it = Interp(c)
    events = []

    def tooler(it_, f, a, k):
        events.append(("tool", a[0], a[1]))
        return a[0]

    def untooler(it_, f, a, k):
        events.append(("untool", a[0], a[1]))
        return a[0]

    it.policies[O + ":_tooler"] = tooler
    it.policies[O + ":_untooler"] = untooler
    bad = bool(c.choose(2))

    def verify(it_, f, a, k):
        events.append(("verify", a[0]))
        if bad:
            raise PyRaise(it_.instantiate(it_.get_global(S, "SelectorError"), ["refused"], {}))
        return a[0]

    it.policies[S + ":verify"] = verify
    Element = it.get_global(S, "Element")
    Call = it.get_global(S, "Call")
    absent = it.models.absent(it)

    def el(name):
        return it.call(Element, [], dict(name=name))

    fns = [SymObj(f"f{i}", Val.ref(z3.IntVal(c.new_id()))) for i in range(3)]
    caps0 = (el("x"),)
    nchild = c.choose(3)
    children = tuple(it.call(Call, [], dict(element=el(fns[1 + j]), captures=(el(f"y{j}"),))) for j in range(nchild))
    root = it.call(Call, [], dict(element=el(fns[0]), captures=caps0, children=children))
    undo = bool(c.choose(2))
    st, r = run(it, it.get_global(O, "autotool"), [root], dict(undo=undo))
    levels = [(fns[0], caps0)] + [(fns[1 + j], children[j].fields["captures"]) for j in range(nchild)]
    tag = "untool" if undo else "tool"
    tool_events = [e for e in events if e[0] != "verify"]
    c.prove("walk/one-call-per-level-preorder", len(tool_events) == len(levels) and all(e[0] == tag and e[1] is f and e[2] is cp for e, (f, cp) in zip(tool_events, levels)))
    if undo:
        c.prove("undo/no-verify-no-raise", st == "ok" and not any(e[0] == "verify" for e in events))
    elif bad:
        c.prove("refused/SelectorError", st == "raise" and exc_name(r) == "SelectorError")
        # from the property (C05/C10): a refused activation leaves no trace -> every push must have been undone
        pushes = sum(1 for e in events if e[0] == "tool")
        pops = sum(1 for e in events if e[0] == "untool")
        c.prove("refused/leaves-no-instrumentation-behind", pushes == pops, only=["C05", "C10"])
    else:
        c.prove("ok/verified-after-tooling", st == "ok" and events[-1][0] == "verify" and events[-1][1] is r)
        c.prove("ok/result-is-selector-over-the-tooled-functions", isinstance(r, Obj) and r.cls is Call and r.fields["element"].fields["name"] is fns[0])
