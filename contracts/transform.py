"""Contracts on the source-to-source transformer (ptera/transform.py): C01, C02, C04, C06, C10, C11, C16.

Every visitor of PteraTransformer is executed from its real body on SCHEMAS: real ast nodes parsed from source
whose sub-expressions / sub-statements are opaque holes (`__E<k>`, `__S<k>`).  `self.visit(hole)` returns the
marker of the visited hole (induction hypothesis: erase(visit(c)) ~ c), `should_instrument` is a free boolean per
(name, annotation) so that every capture subset is covered by forking.  Obligations:
  * C01 transparency:  erase(visit(s)) ~ s with the normaliser of specs/pyeffects.py (rules R1..R9 and their side
    conditions), the visitor does not raise, the output compiles;
  * C02/C06 events:    events(visit(s)) = the instrumented bindings of s in execution order, with the value bound;
  * C04 substitution:  the right-hand side occurs exactly once, as the 4th argument of the interact call whose
    RESULT is what gets stored;
  * C16 marker:        __ptera_ABSENT only ever flows into the 4th argument of an interact call.
"""
import ast
import copy

import z3

from pvc.units import (unit, mk_obj, term_of, callback, calls_of, LoopSpec, Interp, PyRaise, SymObj,
                       SymSeq, SummaryFn, Obj, Sym, SInt, SBool, SStr, SVal, Val, concretize, exc_name)
from pvc.core import Unsupported
from pvc import units as _units
from specs import pyeffects as PE


def run(it, fn, args=(), kwargs=None):
    if getattr(it, "native", False):
        from pvc.native import native_run

        return native_run(fn, args, kwargs)
    return _units.run(it, fn, args, kwargs)


def _replay_native(unit_name):
    def replay(o):
        import json as _json

        prop = o["name"].split("/")[0]
        return (f"import subprocess, sys\n"
                f"r = subprocess.run([sys.executable, '-m', 'pvc.native', 'contracts.transform', {unit_name!r}, {prop!r}, {o['name']!r}, "
                f"{_json.dumps(o.get('decisions') or [])!r}], cwd='/verif', capture_output=True, text=True)\n"
                f"print(r.stdout + r.stderr[-2000:])\nsys.exit(r.returncode)\n")

    return replay


TR = "ptera.transform"
AST = "pystd.ast"
PT = TR + ":PteraTransformer."
VISITORS = [PT + n for n in ("should_instrument", "_interact", "standalone_interaction", "delimit", "make_interaction", "visit_body",
                             "generate_interactions", "visit_FunctionDef", "visit_For", "visit_ExceptHandler", "visit_NamedExpr",
                             "visit_AnnAssign", "visit_Assign", "visit_AugAssign", "visit_Import", "visit_ImportFrom", "visit_Return",
                             "visit_Yield", "visit_YieldFrom", "_ann", "_get", "_set", "_wrap_call")] + [TR + ":_gensym"]

LIB = {
    "proceed": ("__ptera_proceed", "P"), "globals": ("__ptera_globals", "G"), "ABSENT": ("__ptera_ABSENT", "A"),
    "Key": ("__ptera_Key", "K"), "get_tags": ("__ptera_get_tags", "T"), "self": ("_ptera__self", None),
    "frame": ("__ptera_frame", None), "enter_tag": ("__ptera_enter_tag", "E"), "exit_tag": ("__ptera_exit_tag", "X"),
    "yielding": ("__ptera_yielding", "Y"), "delegating": ("__ptera_delegating", "D"),
}


def setup(c, external=(), free=(), reduced=False):
    """An Interp with a PteraTransformer object whose recursive visit / should_instrument / _evaluate are contracts.
    reduced=True: instead of all 2^n capture subsets, explore {all, none, each singleton, each co-singleton} of the
    (up to 16) names asked -- should_instrument is consulted independently per (name, annotation)."""
    decisions = {}
    mode = c.choose(2 + 2 * 16, "subset") if reduced else None

    def decide_key(key):
        if key not in decisions:
            if mode is None:
                decisions[key] = bool(c.choose(2, "instrument"))
            elif mode < 2:
                decisions[key] = mode == 0
            else:
                j, co = divmod(mode - 2, 2)
                decisions[key] = (len(decisions) == j) != bool(co)
        return decisions[key]

    def norm_ann(ann):
        if isinstance(ann, ast.Constant) and ann.value is None:
            return None  # _interact passes Constant(None) for "no annotation"
        return ann

    def visit_hole(node):
        """Induction hypothesis: visit(hole) is the marker of the visited hole (None: not a hole).  Visiting a sub-term that was already
        visited instruments it a second time (every event inside it doubled): its marker becomes the double-visit marker __VV..."""
        if isinstance(node, ast.Name) and node.id.startswith("__VE"):
            return ast.copy_location(ast.Name(id="__VVE" + node.id[4:], ctx=ast.Load()), node)
        if isinstance(node, ast.Expr) and isinstance(node.value, ast.Name) and node.value.id.startswith("__VS"):
            return ast.copy_location(ast.Expr(ast.copy_location(ast.Name(id="__VVS" + node.value.id[4:], ctx=ast.Load()), node)), node)
        if isinstance(node, ast.Name) and node.id.startswith("__E"):
            return ast.copy_location(ast.Name(id="__VE" + node.id[3:], ctx=ast.Load()), node)
        if isinstance(node, ast.Expr) and isinstance(node.value, ast.Name) and node.value.id.startswith("__S"):
            r = ast.copy_location(ast.Expr(ast.copy_location(ast.Name(id="__VS" + node.value.id[3:], ctx=ast.Load()), node)), node)
            return [r] if (len(node.value.id) % 2 if mode is not None else c.choose(2, "visit-returns-list")) else r
        return None

    fields = dict(vardoc={}, used=set(), assigned=set(), free=set(free), external=set(external), provenance={}, annotated={},
                  linenos={}, defaults={}, lib=dict(LIB), filename="<schema>", globals={}, to_instrument=[])
    if getattr(c, "native", False):
        # native replay: the REAL PteraTransformer executed by CPython, same contracts for visit(hole)/should_instrument/_evaluate
        from pvc.native import NativeInterp
        import importlib as _il

        real = _il.import_module("ptera.transform")
        from ptera.utils import ABSENT

        class T(real.PteraTransformer):
            def __init__(self):
                pass

            def visit(self, node):
                r = visit_hole(node)
                return r if r is not None else super().visit(node)

            def should_instrument(self, varname, ann=None):
                ann = norm_ann(ann)
                return decide_key((varname, None if ann is None else PE.dump(ann)))

            def _evaluate(self, node):
                return object()

        tr = T()
        for k_, v_ in fields.items():
            setattr(tr, k_, v_)
        tr.evalcache = {None: ABSENT}
        return NativeInterp(c), tr, decisions

    it = Interp(c)

    def hook(mod, name):
        if mod == "ast" and name in ("NodeTransformer", "NodeVisitor"):
            return it.get_global(AST, name)
        return None

    it.import_hook = hook
    it.module_env(AST).vars["iter_fields"] = ast.iter_fields
    it.module_env(AST).vars["AST"] = ast.AST

    def should(it_, f, args, kwargs):
        varname = args[1]
        ann = norm_ann(args[2] if len(args) > 2 else kwargs.get("ann"))
        return decide_key((varname, None if ann is None else PE.dump(ann)))

    def evaluate(it_, f, args, kwargs):
        node = args[1]
        return SymObj("evaluated:" + (PE.dump(node) if node is not None else "None"), Val.ref(z3.IntVal(c.new_id())))

    def visit(it_, f, args, kwargs):
        self_, node = args
        r = visit_hole(node)
        if r is not None:
            return r
        return it_.call_body(f, args, kwargs)

    def visit_constant(it_, f, args, kwargs):
        # ptera defines no deprecated visit_Num/visit_Str/...: Constant nodes go to generic_visit
        return it_.call(it_.getattr(args[0], "generic_visit"), [args[1]], {})

    it.policies[PT + "should_instrument"] = should
    it.policies[PT + "_evaluate"] = evaluate
    it.policies[AST + ":NodeVisitor.visit"] = visit
    it.policies[AST + ":NodeVisitor.visit_Constant"] = visit_constant
    tr = mk_obj(it, TR, "PteraTransformer", evalcache={None: it.models.absent(it)}, **fields)
    return it, tr, decisions


def parse_stmt(src):
    return ast.parse(src).body[0]


def parse_expr(src):
    return ast.parse(src, mode="eval").body


def instantiate_and_compile(nodes, in_function=True, generator=False):
    """Well-formedness of an output schema: holes are replaced by calls, then CPython compiles it."""
    nodes = copy.deepcopy(nodes if isinstance(nodes, list) else [nodes])

    class Fill(ast.NodeTransformer):
        def visit_Name(self, n):
            if n.id.startswith("__VE") or n.id.startswith("__E") or n.id.startswith("__VS") or n.id.startswith("__S"):
                return ast.copy_location(ast.Call(func=ast.Name(id="hole_" + n.id.strip("_"), ctx=ast.Load()), args=[], keywords=[]), n)
            return n

    nodes = [Fill().visit(n) for n in nodes]
    if nodes and isinstance(nodes[0], ast.expr):
        nodes = [ast.Expr(nodes[0])]
    mk_args = lambda: ast.arguments(posonlyargs=[], args=[], vararg=None, kwonlyargs=[], kw_defaults=[], kwarg=None, defaults=[])
    fn = ast.FunctionDef(name="wrapper", args=mk_args(), body=nodes or [ast.Pass()], decorator_list=[], returns=None, type_params=[])
    outer = ast.FunctionDef(name="outer", args=mk_args(), body=[ast.Assign(targets=[ast.Name(id="nn", ctx=ast.Store()), ast.Name(id="fv", ctx=ast.Store())], value=ast.Constant(0)), fn],
                            decorator_list=[], returns=None, type_params=[])
    mod = ast.Module(body=[outer], type_ignores=[])
    for x in ast.walk(mod):
        for a in ("lineno", "col_offset", "end_lineno", "end_col_offset"):
            if a in getattr(x, "__dict__", {}):
                delattr(x, a)
    ast.fix_missing_locations(mod)
    try:
        compile(mod, "<schema>", "exec")
        return None
    except (SyntaxError, ValueError, TypeError) as e:
        return f"{type(e).__name__}: {e}"


def ev_sig(name, key, ann, value_src, ovr):
    """Expected event: name, key (None | ('attr', 'a') | ('index', src)), annotation source or None, value source, overridable."""
    if key is None:
        k = None
    elif key[0] == "attr":
        k = PE.dump(ast.Call(func=ast.Name(id="__ptera_Key", ctx=ast.Load()), args=[ast.Constant("attr"), ast.Constant(key[1])], keywords=[]))
    else:
        k = PE.dump(ast.Call(func=ast.Name(id="__ptera_Key", ctx=ast.Load()), args=[ast.Constant("index"), parse_expr(f"_[{key[1]}]").slice], keywords=[]))
    a = None if ann is None else PE.dump(parse_expr(ann))
    return (name, k, a, PE.dump(parse_expr(value_src)), ovr)


def check_schema(c, it, tr, decisions, src, expected_events, label, method="visit", expr=False, free=(), want_problems=(), rhs_visited=None,
                 stored=None):
    """Run the real visitor on the schema parsed from `src` and state the clauses."""
    node = parse_expr(src) if expr else parse_stmt(src)
    original = copy.deepcopy(node)
    st, out = run(it, it.getattr(tr, method), [node])
    c.cover(label)
    if st != "ok":
        c.prove(f"{label}/visitor-does-not-raise", False, note=f"raised {exc_name(out)}: {out!r}", only=["C01", "C02"])
        return None
    c.prove(f"{label}/visitor-does-not-raise", True)
    if out is None:
        # a NodeTransformer visitor that returns None DELETES the statement from the function
        c.prove(f"{label}/statement-not-deleted", False, note="the visitor returned None", only=["C01", "C02"])
        return None
    outs = out if isinstance(out, list) else [out]
    bad = instantiate_and_compile(outs)
    c.prove(f"{label}/output-compiles", bad is None, note=str(bad), only=["C01"])
    # (the BODY of a class: its bases, keywords and decorators are compiled in the enclosing scope and are not mangled with its name)
    mangled = [x.id for o in outs for cd in ast.walk(o) if isinstance(cd, ast.ClassDef) for st_ in cd.body for x in ast.walk(st_)
               if isinstance(x, ast.Name) and x.id.startswith("__ptera_")]
    c.prove(f"{label}/no-private-ptera-name-inside-a-class-body(name mangling)", not mangled, note=str(mangled), only=["C01"])
    erased, problems = PE.erase(outs, free_vars=free)
    if not isinstance(erased, list):
        erased = [erased]
    erased = [e for e in erased if e is not None]
    # C01: erase(visit(s)) ~ s
    same = PE.dump(erased) == PE.dump([original])
    c.prove(f"{label}/transparent:erase(visit(s))~s", same, note=f"erased={PE.dump(erased)[:400]} original={PE.dump([original])[:400]}", only=["C01", "C04"])
    kinds = sorted({p.rule for p in problems})
    for k in kinds:
        c.prove(f"{label}/{k}", False, note="; ".join(p.what for p in problems if p.rule == k), only=["C01"])
    # C02 / C06: a sub-term that is visited twice is instrumented twice -- every binding, return, yield and loop inside it would deliver
    # its event twice
    twice = sorted({x.id for o in outs for x in ast.walk(o) if isinstance(x, ast.Name) and x.id.startswith("__VV")})
    c.prove(f"{label}/no-sub-term-visited-twice", not twice, note=str(twice), only=["C02", "C06", "C01"])
    # C02 / C06: every expression and statement of THIS function is visited (a walrus, a yield, a binding inside it is this function's):
    # the holes that do not stand in the body of a nested function / lambda / class must come out as visited markers
    def _own_holes(n, out_):
        if isinstance(n, ast.Name) and (n.id.startswith("__E") or n.id.startswith("__S")) and n.id[3:].isdigit():
            out_.add(n.id)
        if isinstance(n, (ast.FunctionDef, ast.AsyncFunctionDef, ast.Lambda)):
            a_ = n.args
            for d_ in [*a_.defaults, *[k_ for k_ in a_.kw_defaults if k_ is not None], *getattr(n, "decorator_list", [])]:
                _own_holes(d_, out_)
            return
        if isinstance(n, ast.ClassDef):
            for d_ in [*n.bases, *[k_.value for k_ in n.keywords], *n.decorator_list]:
                _own_holes(d_, out_)
            return
        if isinstance(n, (ast.ListComp, ast.SetComp, ast.DictComp, ast.GeneratorExp)):
            pass  # (comprehensions are evaluated in place: their holes are this function's as far as the transformer is concerned)
        for ch in ast.iter_child_nodes(n):
            _own_holes(ch, out_)

    own = set()
    _own_holes(original, own)
    flat_out = "".join(PE.dump(o) for o in outs)
    missing = sorted(h for h in own if ("__V" + h[2:]) not in flat_out and ("__VV" + h[2:]) not in flat_out)
    c.prove(f"{label}/every-expression-of-this-function-is-visited", not missing, note=f"not visited: {missing}", only=["C02", "C06", "C09"])
    # C02 / C06: events
    evs = PE.events(outs)
    got = [e.sig() for e in evs]
    for e in expected_events:
        # a binding the code never asked about is still a binding: it is in the capture set on some path
        kk = (e[0], None if e[2] is None else PE.dump(tr_ann(e[2])))
        if kk not in decisions:
            decisions[kk] = bool(c.choose(2, "instrument-unasked"))
        if e[1] is not None and e[1][0] == "attr":
            # an attribute store `o.attr = v` is ALSO the binding of the variable the selector calls `o.attr` (K.moo > self.x):
            # it is instrumented when the capture set names either the object or the dotted path
            dk = (f"{e[0]}.{e[1][1]}", kk[1])
            if dk not in decisions:
                decisions[dk] = bool(c.choose(2, "instrument-dotted-path"))

    def _wanted(e):
        a = None if e[2] is None else PE.dump(tr_ann(e[2]))
        if decisions.get((e[0], a), decisions.get((e[0], None), False)):
            return True
        return bool(e[1] is not None and e[1][0] == "attr" and decisions.get((f"{e[0]}.{e[1][1]}", a), False))

    exp = [ev_sig(*e) if e[3] != "*" else (e[0], ev_sig(e[0], e[1], e[2], "0", e[4])[1], ev_sig(e[0], e[1], e[2], "0", e[4])[2], "*", e[4]) for e in expected_events if _wanted(e)]
    stars = {i for i, e in enumerate(x for x in expected_events if _wanted(x)) if e[3] == "*"}
    got = [(g[0], g[1], g[2], "*", g[4]) if i in stars else g for i, g in enumerate(got)]
    c.prove(f"{label}/events==instrumented-bindings-in-order", got == exp, note=f"got={got} expected={exp}", only=["C02", "C06", "C11"])
    # C09 (and C01: object lifetime is an externally visible effect): a temporary the transformer introduces holds a reference to a user
    # object (the right-hand side); it is deleted as soon as the statement is done, otherwise `del it` in the user's code no longer
    # drops the last reference (a dropped generator would not be finalised and keep its context installed)
    stored = {x.id for o in outs for x in ast.walk(o) if isinstance(x, ast.Name) and isinstance(x.ctx, ast.Store) and x.id.startswith("_ptera__")}
    deleted = {x.id for o in outs for x in ast.walk(o) if isinstance(x, ast.Name) and isinstance(x.ctx, ast.Del)}
    c.prove(f"{label}/temporaries-are-forgotten-after-the-statement", stored <= deleted, note=f"kept alive: {sorted(stored - deleted)}", only=["C09", "C01"])
    # C16: the marker only flows into the 4th argument of an interact call
    leaks = marker_leaks(outs)
    c.prove(f"{label}/ABSENT-marker-only-inside-interact", not leaks, note=str(leaks), only=["C16"])
    return outs


def tr_ann(src):
    """The annotation expression as the transformer passes it on (string tags are rewritten by _ann)."""
    n = parse_expr(src)
    if isinstance(n, ast.Constant) and isinstance(n.value, str) and n.value.startswith("@"):
        import re

        tags = re.split(r" *& *", n.value)
        return ast.Call(func=ast.Name(id="__ptera_get_tags", ctx=ast.Load()), args=[ast.Constant(t[1:]) for t in tags if t.startswith("@")], keywords=[])
    return n


def marker_leaks(nodes):
    leaks = []
    ok_ids = set()
    for n in nodes:
        for x in ast.walk(n):
            if PE.is_interact(x) and isinstance(x.args[3], ast.Name) and x.args[3].id == PE.ABSENT:
                ok_ids.add(id(x.args[3]))
    for n in nodes:
        for x in ast.walk(n):
            if isinstance(x, ast.Name) and x.id == PE.ABSENT and id(x) not in ok_ids:
                leaks.append(ast.dump(n)[:200])
    return leaks


def stored_through_interact(outs, target_dump, rhs_src):
    """C04: RHS occurs exactly once, as 4th arg of the interact whose result is assigned to the target."""
    rhs = PE.dump(parse_expr(rhs_src))
    count = 0
    ok = False
    for n in outs:
        for x in ast.walk(n):
            if PE.dump(x) == rhs if isinstance(x, ast.expr) else False:
                count += 1
        for x in ast.walk(n):
            if isinstance(x, (ast.Assign, ast.NamedExpr)):
                tg = x.targets[0] if isinstance(x, ast.Assign) else x.target
                if PE.dump(tg) == target_dump and PE.is_interact(x.value) and PE.dump(x.value.args[3]) == rhs:
                    ok = True
    return ok and count == 1


# ---------------------------------------------------------------------------------------------
# Simple statements
# ---------------------------------------------------------------------------------------------
ASSIGN_SCHEMAS = [
    # (label, source, expected events)
    ("name", "x = __E1", [("x", None, None, "__VE1", True)]),
    ("attribute", "o.attr = __E1", [("o", ("attr", "attr"), None, "__VE1", True)]),
    ("subscript-const-index", "o[0] = __E1", [("o", ("index", "0"), None, "__VE1", True)]),
    ("subscript-index-expression", "o[__E2()] = __E1", [("o", ("index", "_ptera__1"), None, "_ptera__0", True)]),
    ("subscript-name-index", "o[k] = __E1", [("o", ("index", "k"), None, "__VE1", True)]),
    # a slice is an index like any other: its bounds are evaluated once, after the value (`x[lo():] = val()`, `x[(a := 1):2] = v`)
    ("subscript-slice-with-effects", "o[__E2():] = __E1", [("o", ("index", "_ptera__1"), None, "_ptera__0", True)]),
    ("subscript-slice-with-walrus", "o[(a := __E2):2] = __E1", [("a", None, None, "__VE2", True), ("o", ("index", "_ptera__1"), None, "_ptera__0", True)]),
    ("subscript-simple-slice", "o[1:k] = __E1", [("o", ("index", "1:k"), None, "__VE1", True)]),
    # an index that is neither a constant nor a plain name may have effects even without a call in it (a walrus, a property read,
    # an operator method): it is evaluated once, after the value
    ("subscript-index-binop", "o[__E2 + 1] = __E1", [("o", ("index", "_ptera__1"), None, "_ptera__0", True)]),
    ("subscript-index-walrus", "o[(k := __E2)] = __E1", [("k", None, None, "__VE2", True), ("o", ("index", "_ptera__1"), None, "_ptera__0", True)]),
    ("subscript-index-attribute", "o[__E2.slot] = __E1", [("o", ("index", "_ptera__1"), None, "_ptera__0", True)]),
    ("deep-attribute", "o.a.b = __E1", []),
    ("call-attribute", "f().attr = __E1", []),
    ("chained", "x = y = __E1", [("x", None, None, "_ptera__0", True), ("y", None, None, "_ptera__0", True)]),
    ("tuple", "a, b = __E1", [("a", None, None, "_ptera__0", True), ("b", None, None, "_ptera__1", True)]),
    ("nested-tuple", "a, (b, cc) = __E1", [("a", None, None, "_ptera__0", True), ("b", None, None, "_ptera__2", True), ("cc", None, None, "_ptera__3", True)]),
    ("starred", "a, *b = __E1", [("a", None, None, "_ptera__0", True), ("b", None, None, "_ptera__1", True)]),
    ("list-target", "[a, b] = __E1", [("a", None, None, "_ptera__0", True), ("b", None, None, "_ptera__1", True)]),
    ("tuple-with-attribute", "o.x, b = __E1", [("o", ("attr", "x"), None, "_ptera__0", True), ("b", None, None, "_ptera__1", True)]),
    ("chained-tuple", "a, b = cc = __E1", [("a", None, None, "_ptera__1", True), ("b", None, None, "_ptera__2", True), ("cc", None, None, "_ptera__0", True)]),
]


@unit("visit_Assign", ["C01", "C02", "C04", "C16", "C09"], VISITORS, replay=_replay_native("visit_Assign"))
def u_visit_assign(c):
    """Plain, attribute, subscript, chained, tuple, nested-tuple, starred and list-target assignment for every
    instrumentation subset of the bound names."""
    it, tr, dec = setup(c)
    k = c.choose(len(ASSIGN_SCHEMAS), "schema")
    label, src, evs = ASSIGN_SCHEMAS[k]
    outs = check_schema(c, it, tr, dec, src, evs, label)
    if outs is None:
        return
    if label in ("name", "attribute", "subscript-const-index"):
        tgt = PE.dump(parse_stmt(src).targets[0])
        name = evs[0][0]
        if dec.get((name, None)):
            c.prove(f"{label}/rhs-once-and-result-stored", stored_through_interact(outs, tgt, "__VE1"), only=["C04", "C01"])
    # C02/C06: bindings nested in the right-hand side (walrus, yield) must be rewritten too: the RHS must be visited
    flat = "".join(PE.dump(o) for o in outs)
    c.prove("rhs-bindings-are-rewritten(rhs visited)", "__VE1" in flat, only=["C02", "C06"], note=label)


ANN_SCHEMAS = [
    ("annotated", "x: __E2 = __E1", [("x", None, "__E2", "__VE1", True)]),
    ("annotated-tagstring", "x: '@A & @B' = __E1", [("x", None, "'@A & @B'", "__VE1", True)]),
    ("declaration", "x: int", [("x", None, "int", "__ptera_ABSENT", True)]),
    ("declaration-tagstring", "x: '@A & @B'", [("x", None, "'@A & @B'", "__ptera_ABSENT", True)]),
    ("annotated-attribute", "o.y: int = __E1", [("o", ("attr", "y"), "int", "__VE1", True)]),
    ("declared-attribute", "o.y: int", []),
]


@unit("visit_AnnAssign", ["C01", "C02", "C11", "C16", "C04"], VISITORS, replay=_replay_native("visit_AnnAssign"))
def u_visit_annassign(c):
    """Annotated assignment with value, with a tag string, and the bare declaration (value = the ABSENT marker,
    which must reach user code only through an interact call)."""
    it, tr, dec = setup(c)
    k = c.choose(len(ANN_SCHEMAS), "schema")
    label, src, evs = ANN_SCHEMAS[k]
    node = parse_stmt(src)
    original = copy.deepcopy(node)
    if label.startswith("declaration") and not getattr(c, "native", False) and c.choose(2, "declared-before-with-a-tag"):
        # the variable was declared before with a tag that an active selector names (x: "@Q" ... x: int): what THIS declaration becomes
        # is decided by this binding's own annotation all the same (the table of annotations and the capture set hold real objects)
        from contracts.tags import _tags
        tq = _tags(it)["A"]
        tr.fields["annotated"]["x"] = tq
        tr.fields["to_instrument"].append(mk_obj(it, "ptera.selector", "Element", name=[None, "x"][c.choose(2, "generic-or-named")], value=it.models.absent(it),
                                                 category=tq, capture="x", tags=frozenset({1})))
    st, out = run(it, it.getattr(tr, "visit"), [node])
    c.prove(f"{label}/visitor-does-not-raise", st == "ok")
    if st != "ok":
        return
    outs = out if isinstance(out, list) else [out]
    c.prove(f"{label}/output-compiles", instantiate_and_compile(outs) is None, only=["C01"])
    if label == "declared-attribute":
        c.prove("declared-attribute-left-untouched", len(outs) == 1 and PE.dump(outs[0]) == PE.dump(original), only=["C16", "C01"])
        return
    name = evs[0][0]
    ann_key = PE.dump(tr_ann(evs[0][2]))
    inst = dec.get((name, ann_key), False)
    if evs[0][1] is not None and evs[0][1][0] == "attr":
        # an attribute store is also the binding of the dotted path the selector may name (o.y)
        inst = inst or dec.get((f"{name}.{evs[0][1][1]}", ann_key), False)
    got = [e.sig() for e in PE.events(outs)]
    e = evs[0]
    exp = [(e[0], ev_sig(*e)[1], ann_key, PE.dump(parse_expr(e[3])), e[4])] if inst else []
    c.prove(f"{label}/event-carries-this-binding's-annotation", got == exp, note=f"{got} vs {exp}", only=["C02", "C11"])
    # whether the binding is in the capture set is asked with the TAGS of the binding ('@A & @B' is get_tags('A', 'B')), never with the spelling
    # of the annotation: a selector that carries a category (f > x:@A) is compared with tags
    asked = sorted({k_[1] for k_ in dec if k_[0] == name and k_[1] is not None})
    c.prove(f"{label}/capture-set-consulted-with-the-binding's-tags", all(a == ann_key for a in asked), note=f"asked with {asked}, the binding's tags are {ann_key}",
            only=["C11", "C16", "C02"])
    if label.startswith("declaration"):
        if not inst:
            c.prove(f"{label}/outside-the-capture-set-left-untouched(binds nothing)", len(outs) == 1 and PE.dump(outs[0]) == PE.dump(original), only=["C16", "C01"])
        # from the property (C16): a declared-only variable is supplied from outside or fails loudly; the marker is never bound unchecked
        leaks = marker_leaks(outs)
        c.prove(f"{label}/ABSENT-marker-only-inside-interact", not leaks, note=str(leaks), only=["C16"])
        if inst:
            c.prove(f"{label}/rewritten-to-interaction", len(outs) == 1 and isinstance(outs[0], ast.Assign) and PE.is_interact(outs[0].value)
                    and PE.dump(outs[0].value.args[3]) == PE.dump(ast.Name(id=PE.ABSENT, ctx=ast.Load())), only=["C16"])
    else:
        erased, problems = PE.erase(outs)
        erased = [x for x in (erased if isinstance(erased, list) else [erased]) if x is not None]
        # the rewritten statement is a plain assignment: the annotation is moved into the interact call
        want = ast.Assign(targets=[original.target], value=original.value)
        c.prove(f"{label}/transparent-up-to-annotation", PE.dump(erased) == PE.dump([want]) or PE.dump(erased) == PE.dump([original]), only=["C01", "C04"])
        for k_ in sorted({p.rule for p in problems}):
            c.prove(f"{label}/{k_}", False, note="; ".join(p.what for p in problems if p.rule == k_), only=["C01"])
    if not inst and not label.startswith("declaration"):
        c.prove(f"{label}/uninstrumented-left-as-plain-assignment", all(not PE.events([o]) for o in outs), only=["C01"])


AUG_SCHEMAS = [
    ("name", "x += __E1", [("x", None, None, "x", True)]),
    # an augmented assignment to an attribute / an item of a variable binds that place like the plain store does (`K.m > self.x` selects
    # it): one event with the value stored, the object and the index evaluated once and first as the statement itself does
    ("attribute", "o.a += __E1", [("o", ("attr", "a"), None, "_ptera__1", True)]),
    ("subscript", "o[__E2] += __E1", [("o", ("index", "_ptera__2"), None, "_ptera__1", True)]),
    ("subscript-const-index", "o[0] += __E1", [("o", ("index", "0"), None, "_ptera__1", True)]),
    ("subscript-name-index", "o[k] += __E1", [("o", ("index", "_ptera__2"), None, "_ptera__1", True)]),
    ("slice", "o[__E2:] += __E1", []),
    ("deeper-attribute", "o.p.a += __E1", []),
]


@unit("visit_AugAssign", ["C01", "C02", "C04", "C09"], VISITORS, replay=_replay_native("visit_AugAssign"))
def u_visit_augassign(c):
    """x += E: the augmented statement is kept (operand visited) and followed by x = interact('x', ..., x)."""
    it, tr, dec = setup(c)
    k = c.choose(len(AUG_SCHEMAS), "schema")
    label, src, evs = AUG_SCHEMAS[k]
    node = parse_stmt(src)
    original = copy.deepcopy(node)
    st, out = run(it, it.getattr(tr, "visit"), [node])
    c.prove(f"{label}/visitor-does-not-raise", st == "ok")
    if st != "ok":
        return
    outs = out if isinstance(out, list) else [out]
    c.prove(f"{label}/output-compiles", instantiate_and_compile(outs) is None, only=["C01"])
    erased, problems = PE.erase(outs)
    erased = [x for x in (erased if isinstance(erased, list) else [erased]) if x is not None]
    c.prove(f"{label}/transparent:erase(visit(s))~s", PE.dump(erased) == PE.dump([original]), note=PE.dump(erased)[:300], only=["C01", "C04"])
    got = [e.sig() for e in PE.events(outs)]
    # (an attribute store is also the binding of the dotted path the selector may name: K.m > self.x)
    exp = [ev_sig(*e) for e in evs if dec.get((e[0], None), False) or (e[1] is not None and e[1][0] == "attr" and dec.get((f"{e[0]}.{e[1][1]}", None), False))]
    c.prove(f"{label}/events==instrumented-bindings-in-order", got == exp, note=f"{got} vs {exp}", only=["C02", "C04"])
    c.prove(f"{label}/operand-visited", "__VE1" in "".join(PE.dump(o) for o in outs), only=["C02", "C06"])
    if "__E2" in src:
        c.prove(f"{label}/index-visited", "__VE2" in "".join(PE.dump(o) for o in outs), only=["C02", "C06"])
    # the temporaries that hold the object, the index and the value are forgotten at the end of the statement (they would keep the objects
    # alive until the function returns: a generator held there is not finalised when the program drops it)
    made = {x.id for o in outs for x in ast.walk(o) if isinstance(x, ast.Name) and isinstance(x.ctx, ast.Store) and x.id.startswith("_ptera__")}
    gone = {x.id for o in outs if isinstance(o, ast.Delete) for x in o.targets if isinstance(x, ast.Name)}
    c.prove(f"{label}/temporaries-are-forgotten-after-the-statement", made <= gone, note=f"bound {sorted(made)}, deleted {sorted(gone)}", only=["C09", "C01", "C02"])
    if label == "name" and dec.get(("x", None)):
        c.prove("name/event-follows-the-augmented-statement", len(outs) == 2 and isinstance(outs[0], ast.AugAssign) and isinstance(outs[1], ast.Assign), only=["C02", "C04"])


@unit("visit_NamedExpr", ["C01", "C02", "C04"], VISITORS, replay=_replay_native("visit_NamedExpr"))
def u_visit_namedexpr(c):
    """(x := E) becomes (x := interact('x', None, None, visit(E), True))."""
    it, tr, dec = setup(c)
    outs = check_schema(c, it, tr, dec, "(x := __E1)", [("x", None, None, "__VE1", True)], "walrus", expr=True)
    if outs and dec.get(("x", None)):
        c.prove("walrus/rhs-once-and-result-stored", stored_through_interact(outs, PE.dump(ast.Name(id="x", ctx=ast.Load())), "__VE1"), only=["C04"])


IMPORT_SCHEMAS = [
    ("import", "import a", [("a", None, None, "a", True)]),
    ("import-as", "import a.b as cc", [("cc", None, None, "cc", True)]),
    ("import-dotted", "import a.b", [("a", None, None, "a", True)]),
    ("from-import", "from m import a, b as cc", [("a", None, None, "a", True), ("cc", None, None, "cc", True)]),
]


@unit("visit_Import", ["C01", "C02"], VISITORS, replay=_replay_native("visit_Import"))
def u_visit_import(c):
    """import / from-import: the statement is kept and each bound name gets one interaction afterwards."""
    it, tr, dec = setup(c)
    k = c.choose(len(IMPORT_SCHEMAS), "schema")
    label, src, evs = IMPORT_SCHEMAS[k]
    check_schema(c, it, tr, dec, src, evs, label)


@unit("visit_Return", ["C01", "C04", "C06"], VISITORS, replay=_replay_native("visit_Return"))
def u_visit_return(c):
    """return E -> return interact('#value', None, None, visit(E), True); a bare return reports None."""
    it, tr, dec = setup(c)
    if c.choose(2):
        outs = check_schema(c, it, tr, dec, "return __E1", [("#value", None, None, "__VE1", True)], "return-value")
    else:
        node = parse_stmt("return")
        st, out = run(it, it.getattr(tr, "visit"), [node])
        c.prove("bare-return/visitor-does-not-raise", st == "ok")
        if st != "ok":
            return
        erased, problems = PE.erase([out])
        want = "return None" if dec.get(("#value", None)) else "return None"
        c.prove("bare-return/transparent", PE.dump(erased) in (PE.dump([parse_stmt("return None")]), PE.dump([parse_stmt("return")])), only=["C01"])
        got = [e.sig() for e in PE.events([out])]
        exp = [ev_sig("#value", None, None, "None", True)] if dec.get(("#value", None)) else []
        c.prove("bare-return/value-event-reports-None", got == exp, only=["C06"])


@unit("visit_Yield", ["C01", "C06", "C04", "C09", "C05", "C02", "C07", "C03", "C11", "C12", "C13", "C16", "C17"], VISITORS, replay=_replay_native("visit_Yield"))
def u_visit_yield(c):
    """yield E -> interact('#receive', None, enter_tag, (yield interact('#yield', None, exit_tag, visit(E), True)), True):
    one #yield event with the yielded value, then on resumption one #receive with the sent value."""
    it, tr, dec = setup(c)
    src = ["(yield __E1)", "(yield)"][c.choose(2)]
    node = parse_expr(src)
    original = copy.deepcopy(node)
    st, out = run(it, it.getattr(tr, "visit"), [node])
    c.prove("yield/visitor-does-not-raise", st == "ok")
    if st != "ok":
        return
    erased, problems = PE.erase(out)
    ok = PE.dump(erased) == PE.dump(original) or (src == "(yield)" and PE.dump(erased) == PE.dump(parse_expr("(yield None)")))
    c.prove("yield/transparent", ok and not problems, note=PE.dump(erased)[:300] + str(problems), only=["C01"])
    got = [e.sig() for e in PE.events([out])]
    val = "__VE1" if src == "(yield __E1)" else "None"
    # (a yield the code never asked about is still a yield: it is in the capture set on some path)
    ky, kr = ("#yield", PE.dump(ast.Name(id="__ptera_exit_tag", ctx=ast.Load()))), ("#receive", PE.dump(ast.Name(id="__ptera_enter_tag", ctx=ast.Load())))
    for kk in (ky, kr):
        if kk not in dec:
            dec[kk] = bool(c.choose(2, "instrument-unasked"))
    dy, dr = dec[ky], dec[kr]
    exp = []
    if dy:
        exp.append(("#yield", None, PE.dump(ast.Name(id="__ptera_exit_tag", ctx=ast.Load())), PE.dump(parse_expr(val)), True))
    if dr:
        # the value received is what the yield gives back: the yield itself is done by the frame's helper (R17)
        inner = ast.YieldFrom(value=ast.Call(func=ast.Name(id="__ptera_yielding", ctx=ast.Load()),
                                             args=[ast.Name(id="__ptera_frame", ctx=ast.Load()), PE.events([out])[0].call if dy else parse_expr(val)], keywords=[]))
        exp.append(("#receive", None, PE.dump(ast.Name(id="__ptera_enter_tag", ctx=ast.Load())), PE.dump(inner), True))
    c.prove("yield/#yield-then-#receive-with-tags", got == exp, note=f"{got} vs {exp}", only=["C06"])
    c.prove("yield/output-compiles", instantiate_and_compile([ast.Expr(out)]) is None, only=["C01"])
    # every yield of an instrumented function goes through the frame (whatever is instrumented): that is how the frame knows that the
    # generator is suspended, and puts the caller's handlers back meanwhile (C09)
    ys = [x for x in ast.walk(out) if isinstance(x, (ast.Yield, ast.YieldFrom))]
    c.prove("yield/the-frame-does-the-yield", len(ys) == 1 and isinstance(ys[0], ast.YieldFrom) and isinstance(ys[0].value, ast.Call)
            and PE.dump(ys[0].value.func) == PE.dump(ast.Name(id="__ptera_yielding", ctx=ast.Load())) and len(ys[0].value.args) == 2
            and PE.dump(ys[0].value.args[0]) == PE.dump(ast.Name(id="__ptera_frame", ctx=ast.Load())), only=["C09", "C05", "C02", "C06", "C07", "C03", "C11", "C12", "C13", "C16", "C17"])


# ---------------------------------------------------------------------------------------------
# Compound statements
# ---------------------------------------------------------------------------------------------
FOR_SCHEMAS = [
    ("name-target", "for i in __E1:\n    __S1\nelse:\n    __S2", ["i"], [("i", None, None, "i", True)]),
    ("tuple-target", "for a, b in __E1:\n    __S1", ["a", "b"], [("a", None, None, "a", True), ("b", None, None, "b", True)]),
    ("tuple-target-binding-order", "for val, key in __E1:\n    __S1", ["val", "key"], [("val", None, None, "val", True), ("key", None, None, "key", True)]),
    ("nested-target-binding-order", "for (z, y), x in __E1:\n    __S1", ["z", "y", "x"], [("z", None, None, "z", True), ("y", None, None, "y", True), ("x", None, None, "x", True)]),
    ("nested-tuple-target", "for a, (b, cc) in __E1:\n    __S1", ["a", "b", "cc"], [("a", None, None, "a", True), ("b", None, None, "b", True), ("cc", None, None, "cc", True)]),
    ("starred-target", "for a, *b in __E1:\n    __S1", ["a", "b"], [("a", None, None, "a", True), ("b", None, None, "b", True)]),
    ("list-target", "for [a, b] in __E1:\n    __S1", ["a", "b"], [("a", None, None, "a", True), ("b", None, None, "b", True)]),
    ("subscript-target", "for o[0] in __E1:\n    __S1", ["o"], []),
    ("attribute-target", "for o.k in __E1:\n    __S1", ["o"], []),
]


@unit("visit_For", ["C01", "C02", "C06"], VISITORS, replay=_replay_native("visit_For"))
def u_visit_for(c):
    """for T in E: body -> for T in visit(E): try: #loop_v..., target interactions, visit(body) finally: #endloop_v...
    for every variable v of the target; else-branch visited; every target form accepted."""
    it, tr, dec = setup(c, reduced=True)
    k = c.choose(len(FOR_SCHEMAS), "schema")
    label, src, vars_, tevs = FOR_SCHEMAS[k]
    node = parse_stmt(src)
    original = copy.deepcopy(node)
    st, out = run(it, it.getattr(tr, "visit"), [node])
    if st != "ok":
        c.prove(f"{label}/visitor-does-not-raise", False, note=f"raised {exc_name(out)}", only=["C01", "C02"])
        return
    c.prove(f"{label}/visitor-does-not-raise", True)
    c.prove(f"{label}/output-compiles", instantiate_and_compile([out]) is None, only=["C01"])
    erased, problems = PE.erase([out])
    c.prove(f"{label}/transparent:erase(visit(s))~s", PE.dump(erased) == PE.dump([original]), note=PE.dump(erased)[:300], only=["C01"])
    for k_ in sorted({p.rule for p in problems}):
        c.prove(f"{label}/{k_}", False, note="; ".join(p.what for p in problems if p.rule == k_), only=["C01"])
    # bracket structure (C06)
    body = out.body
    # every variable the target binds (starred ones, nested ones) has its two markers: the
    # transformer must have asked whether each of them is wanted (a marker never asked about is a marker never emitted)
    # (the object of an attribute / item target is not a variable the loop binds: markers named after it are tolerated, not demanded)
    bound = [v for v in vars_ if label not in ("subscript-target", "attribute-target")]
    asked = [v for v in bound if (f"#loop_{v}", None) in dec and (f"#endloop_{v}", None) in dec]
    c.prove(f"{label}/markers-considered-for-every-variable-of-the-target", asked == bound, note=f"asked for {asked}, target binds {bound}", only=["C06"])
    loops = [v for v in vars_ if dec.get((f"#loop_{v}", None))]
    ends = [v for v in vars_ if dec.get((f"#endloop_{v}", None))]
    if ends:
        ok = len(body) == 1 and isinstance(body[0], ast.Try) and not body[0].handlers and not body[0].orelse
        c.prove(f"{label}/iteration-body-in-try-finally", ok, only=["C06"])
        if ok:
            fin = [e.name for e in PE.events(body[0].finalbody)]
            c.prove(f"{label}/#endloop-in-finally-once-per-variable", sorted(fin) == sorted(f"#endloop_{v}" for v in ends), only=["C06"])
            # begin/end pairs are properly nested: the end markers of one iteration come in the REVERSE order of its begin markers
            # (and both in an order fixed by the source, not by the iteration order of a set)
            c.prove(f"{label}/#endloop-markers-mirror-the-#loop-markers", fin == [f"#endloop_{v}" for v in reversed(ends)], note=f"{fin}", only=["C06"])
            inner = body[0].body
    else:
        inner = body
    if not ends or (len(body) == 1 and isinstance(body[0], ast.Try)):
        names = [e.name for e in PE.events(inner)]
        want_front = sorted(f"#loop_{v}" for v in loops)
        c.prove(f"{label}/#loop-first-once-per-variable", sorted(names[:len(loops)]) == want_front, only=["C06"])
        c.prove(f"{label}/#loop-markers-in-target-order", names[:len(loops)] == [f"#loop_{v}" for v in loops], note=f"{names[:len(loops)]}", only=["C06"])
        tgt = [e.sig() for e in PE.events(inner)[len(loops):]]
        exp = [ev_sig(*e) for e in tevs if dec.get((e[0], None))]
        c.prove(f"{label}/target-bindings-reported-in-order", tgt == exp, note=f"{tgt} vs {exp}", only=["C02"])
    c.prove(f"{label}/iter-and-bodies-visited", "__VE1" in PE.dump(out.iter) and "__VS1" in PE.dump(out.body)
            and ("__S2" not in src or "__VS2" in PE.dump(out.orelse)), only=["C02", "C06"])


@unit("visit_Try", ["C01", "C02"], VISITORS, replay=_replay_native("visit_Try"))
def u_visit_try(c):
    """try/except: the exception name is reported at the start of the handler; type expression and bodies visited."""
    it, tr, dec = setup(c)
    srcs = [("named", "try:\n    __S1\nexcept __E1 as e:\n    __S2\nfinally:\n    __S3", [("e", None, None, "e", True)]),
            ("unnamed", "try:\n    __S1\nexcept __E1:\n    __S2", []),
            ("bare", "try:\n    __S1\nexcept:\n    __S2\nelse:\n    __S3", [])]
    label, src, evs = srcs[c.choose(3)]
    check_schema(c, it, tr, dec, src, evs, label)


PASS_SCHEMAS = [
    ("while", "while __E1:\n    __S1\nelse:\n    __S2", []),
    ("if", "if __E1:\n    __S1\nelif __E2:\n    __S2\nelse:\n    __S3", []),
    ("with-target", "with __E1 as w:\n    __S1", [("w", None, None, "w", True)]),
    ("with-no-target", "with __E1:\n    __S1", []),
    ("with-two-targets", "with __E1 as w, __E2 as (p, q):\n    __S1", [("w", None, None, "w", True), ("p", None, None, "p", True), ("q", None, None, "q", True)]),
    ("with-attribute-target", "with __E1 as o.f:\n    __S1", []),
    ("with-three-items", "with __E1 as w, __E2 as p, __E3 as q:\n    __S1", [("w", None, None, "w", True), ("p", None, None, "p", True), ("q", None, None, "q", True)]),
    ("with-target-in-the-middle", "with __E1, __E2 as p, __E3:\n    __S1", [("p", None, None, "p", True)]),
    ("nested-def", "def g(a, b=__E1):\n    x = 1\n    return x", []),
    ("nested-class", "class A(__E1):\n    def m(self):\n        return 1", []),
    ("nested-class-body", "class A:\n    v = __E1\n    def m(self):\n        w = 1", []),
    # the bases, the keywords and the decorators of a nested class are evaluated in THIS function: an assignment expression or a yield
    # there is a binding / a suspension of this function
    ("nested-class-header", "@__E3\nclass A((b := __E1), metaclass=(m := __E2)):\n    v = 1", [("b", None, None, "__VE1", True), ("m", None, None, "__VE2", True)]),
    # (global / nonlocal statements are hoisted by the function-level visitor and replaced by `pass` where they stood: see the
    # function schemas global-at-top-level, nonlocal-closure and *-declared-in-a-nested-block)
    ("expr", "__E1", []),
    ("delete", "del x", []),
    ("raise", "raise __E1", []),
    ("assert", "assert __E1, __E2", []),
    # a lambda / nested coroutine is a scope of its own, like a nested def: a walrus, a yield or a return inside it belongs to IT,
    # so its body is left exactly as it is (an event for it would be "an event for anything else")
    ("lambda", "k = lambda a: __E1", [("k", None, None, "lambda a: __E1", True)]),
    ("lambda-with-walrus", "k = lambda: (v := __E1)", [("k", None, None, "lambda: (v := __E1)", True)]),
    # ... but its default values are evaluated in THIS function, when the lambda / def is created
    ("lambda-default-with-walrus", "k = lambda q=(m := __E1): __E2", [("m", None, None, "__VE1", True), ("k", None, None, "*", True)]),
    ("nested-def-default-with-walrus", "def g(z=(w := __E1)):\n    return __E2", [("w", None, None, "__VE1", True)]),
    ("nested-async-def", "async def g(a):\n    x = __E1\n    return x", []),
    ("nested-def-decorated-with-keyword-default", "@__E3\ndef g(a, *, k=__E1):\n    return __E2", []),
    # the names a match pattern binds (capture, star, rest-of-mapping and `as` patterns) are bound when the pattern succeeds, before the guard
    # is evaluated: one event each at the start of the case block, in the order of the pattern
    ("match-sequence-and-mapping", "match __E1:\n    case [a, *rest] if __E2:\n        __S1\n    case {'k': v, **others}:\n        __S2\n    case _:\n        __S3",
     [("a", None, None, "a", True), ("rest", None, None, "rest", True), ("v", None, None, "v", True), ("others", None, None, "others", True)]),
    ("match-as-and-or", "match __E1:\n    case str() as s:\n        __S1\n    case (p, q) | [p, q, _]:\n        __S2",
     [("s", None, None, "s", True), ("p", None, None, "p", True), ("q", None, None, "q", True)]),
    # a delegation is done by the frame as well (R18): the generator is suspended at each item the delegate yields
    ("yield-from", "r = yield from __E1", [("r", None, None, "(yield from __ptera_delegating(__ptera_frame, __VE1))", True)]),
    ("comprehension", "r = [__E1 for i in __E2 if __E3]", [("r", None, None, "[__VE1 for i in __VE2 if __VE3]", True)]),
]


@unit("pass-through", ["C01", "C02", "C06", "C09", "C05", "C07", "C03"], VISITORS + [AST + ":NodeTransformer.generic_visit", AST + ":NodeVisitor.visit"], replay=_replay_native("pass-through"))
def u_passthrough(c):
    """Statement forms without a dedicated rule go through NodeTransformer.generic_visit (interpreted from the stdlib source):
    while / if / with / nested def / class / global / nonlocal / expression / del / raise / assert / lambda / comprehension."""
    it, tr, dec = setup(c)
    k = c.choose(len(PASS_SCHEMAS), "schema")
    label, src, evs = PASS_SCHEMAS[k]
    for e in evs:
        dec.setdefault((e[0], None), bool(c.choose(2, "instrument")))
    outs = check_schema(c, it, tr, dec, src, evs, label)
    if label == "yield-from" and outs is not None:
        ys = [x for o in outs for x in ast.walk(o) if isinstance(x, (ast.Yield, ast.YieldFrom))]
        c.prove("yield-from/the-frame-does-the-delegation", len(ys) == 1 and isinstance(ys[0], ast.YieldFrom) and isinstance(ys[0].value, ast.Call)
                and PE.dump(ys[0].value.func) == PE.dump(ast.Name(id="__ptera_delegating", ctx=ast.Load())) and len(ys[0].value.args) == 2
                and PE.dump(ys[0].value.args[0]) == PE.dump(ast.Name(id="__ptera_frame", ctx=ast.Load())), only=["C09", "C05", "C02", "C06", "C07", "C03", "C11", "C12", "C13", "C16", "C17"])
    if label == "with-two-targets" and outs is not None and dec.get(("w", None)):
        # `with A as w, B as (p, q)`: w is bound BEFORE B is entered (the statement is equivalent to nested withs); its event must be
        # delivered at that moment -- if entering B raises, w was bound all the same
        text = PE.dump(outs)
        iw, ie2 = text.find("Constant(value='w')"), text.find("__VE2")
        c.prove("with-two-targets/first-target-reported-before-the-second-item-is-entered", 0 <= iw < ie2, note=f"positions {iw} {ie2}", only=["C02"])


# ---------------------------------------------------------------------------------------------
# visit_FunctionDef (root): wrapper, prelude, parameters, meta-event brackets
# ---------------------------------------------------------------------------------------------
FUNC_SCHEMAS = [
    ("plain", "def f(a, b: '@T' = __E9, *args, k=1, **kw):\n    __S1\n    return __E1", False, True),
    ("docstring", "def f(a):\n    'doc'\n    __S1\n    return __E1", False, True),
    ("falls-off-the-end", "def f(a):\n    __S1", False, False),
    ("posonly", "def f(p, /, a):\n    return __E1", False, True),
    ("ends-with-with-return", "def f(a):\n    with __E1:\n        return __E2", False, True),
    ("ends-with-nested-with-raise", "def f(a):\n    with __E1:\n        with __E2 as w:\n            raise __E3", False, True),
    ("ends-with-if-returns", "def f(a):\n    if __E1:\n        return 1\n    else:\n        return 2", False, True),
    ("ends-with-try-return", "def f(a):\n    try:\n        return __E1\n    except __E2:\n        __S1", False, True),
    ("ends-with-loop", "def f(a):\n    for i in __E1:\n        return i", False, True),
    ("nonlocal-closure", "def f(a):\n    nonlocal fv\n    fv = __E1\n    return fv", True, True),
    ("nonlocal-declared-in-a-nested-block", "def f(a):\n    if __E1:\n        nonlocal fv\n        fv = __E2\n    return fv", True, True),
    ("global-at-top-level", "def f(a):\n    global gg\n    gg = __E1\n    return gg", False, True),
    ("global-declared-in-a-nested-block", "def f(a):\n    while __E1:\n        global gg\n        gg = __E2\n    return gg", False, True),
    # a declaration may stand in EVERY block of a compound statement: the handlers of a try and the cases of a match are not statements
    # themselves (ast.ExceptHandler, ast.match_case), the blocks inside them are
    ("global-declared-in-every-block-of-a-try", "def f(a):\n    try:\n        global g1\n        g1 = __E1\n    except __E2:\n        global g2\n        g2 = __E3\n    else:\n        global g3\n        g3 = __E4\n    finally:\n        global g4\n        g4 = __E5\n    return g1", False, True),
    ("declared-in-loop-else-and-with", "def f(a):\n    for i in __E1:\n        global g1\n        g1 = i\n    else:\n        global g2\n        g2 = __E2\n    with __E3:\n        global g3\n        g3 = __E4\n    return g1", False, True),
    ("nonlocal-declared-in-a-match-case", "def f(a):\n    match __E1:\n        case 1:\n            nonlocal fv\n            fv = __E2\n        case _:\n            global g1\n            g1 = __E3\n    return fv", True, True),
]


def _split_root(out):
    """Reads the wrapper structure of the output of visit_FunctionDef(root)."""
    body = list(out.body)
    doc = None
    if body and isinstance(body[0], ast.Expr) and isinstance(body[0].value, ast.Constant) and isinstance(body[0].value.value, str):
        doc, body = body[0], body[1:]
    body = [s for s in body if not isinstance(s, (ast.Global, ast.Nonlocal))]  # hoisted declarations
    if len(body) != 1 or not isinstance(body[0], ast.With):
        return None
    w = body[0]
    inner = w.body
    tr_ = inner[0] if len(inner) == 1 and isinstance(inner[0], ast.Try) else None
    return doc, w, inner, tr_


@unit("visit_FunctionDef", ["C01", "C02", "C06", "C16", "C11", "C04"], VISITORS, replay=_replay_native("visit_FunctionDef"))
def u_visit_functiondef(c):
    """Root function: `with proceed(self) as frame:` around try / except BaseException as #error / finally; #enter first,
    external and closure prelude, one interaction per parameter in signature order carrying its annotation, visited body;
    #exit in the finally; a #value interaction on every normal completion."""
    k = c.choose(len(FUNC_SCHEMAS), "schema")
    label, src, closure, ends_in_return = FUNC_SCHEMAS[k]
    it, tr, dec = setup(c, external=["g"], free=["fv"] if closure or c.choose(2) else [], reduced=True)
    free = sorted(tr.fields["free"])
    node = parse_stmt(src)
    original = copy.deepcopy(node)
    st, out = run(it, it.getattr(tr, "visit_FunctionDef"), [node], dict(root=True))
    c.prove(f"{label}/visitor-does-not-raise", st == "ok")
    if st != "ok":
        return
    parts = _split_root(out)
    c.prove(f"{label}/wrapped-in-with-proceed(self)-as-frame", parts is not None and PE.dump(parts[1].items[0].context_expr) ==
            PE.dump(parse_expr("__ptera_proceed(_ptera__self)")) and parts[1].items[0].optional_vars.id == "__ptera_frame", only=["C06", "C01", "C03"])
    if parts is None:
        return
    doc, w, inner, try_ = parts
    c.prove(f"{label}/signature-untouched", PE.dump(out.args) == PE.dump(original.args) and out.name == original.name, only=["C01"])
    # ---- C01: transparency + well-formedness
    mod = copy.deepcopy(out)
    bad = instantiate_and_compile([mod])
    if label == "nonlocal-closure":
        c.prove(f"{label}/output-compiles(nonlocal-after-closure-prelude)", bad is None, note=str(bad), only=["C01"])
    else:
        c.prove(f"{label}/output-compiles", bad is None, note=str(bad), only=["C01"])
    erased, problems = PE.erase(copy.deepcopy(out), free_vars=free)
    want = copy.deepcopy(original)
    c.prove(f"{label}/transparent:erase(visit(f))~f", PE.dump(PE.strip_trailing_return_none(erased)) == PE.dump(PE.strip_trailing_return_none(want)),
            note=PE.dump(erased)[:500], only=["C01"])
    for k_ in sorted({p.rule for p in problems}):
        c.prove(f"{label}/{k_}", False, note="; ".join(p.what for p in problems if p.rule == k_), only=["C01"])
    # ---- C06: brackets
    d_enter = dec.get(("#enter", PE.dump(ast.Name(id="__ptera_enter_tag", ctx=ast.Load()))), False)
    d_exit = dec.get(("#exit", PE.dump(ast.Name(id="__ptera_exit_tag", ctx=ast.Load()))), False)
    d_error = dec.get(("#error", None), False)
    if d_exit or d_error:
        c.prove(f"{label}/body-in-try", try_ is not None and not try_.orelse, only=["C06"])
        if try_ is None:
            return
        body = try_.body
        fin = [e.sig() for e in PE.events(try_.finalbody)]
        c.prove(f"{label}/#exit-once-in-finally-iff-instrumented", fin == ([("#exit", None, PE.dump(ast.Name(id="__ptera_exit_tag", ctx=ast.Load())), PE.dump(ast.Constant(True)), False)] if d_exit else []), only=["C06"])
        hs = try_.handlers
        if d_error:
            ok = (len(hs) == 1 and hs[0].name == "#error" and PE.dump(hs[0].type) == PE.dump(ast.Name(id="BaseException", ctx=ast.Load()))
                  and len(hs[0].body) == 2 and isinstance(hs[0].body[1], ast.Raise) and hs[0].body[1].exc is None
                  and [e.sig() for e in PE.events([hs[0].body[0]])] == [("#error", None, None, PE.dump(ast.Name(id="#error", ctx=ast.Load())), False)])
            c.prove(f"{label}/#error-reported-then-reraised", ok, only=["C06", "C01"])
        else:
            c.prove(f"{label}/no-handler-when-#error-not-instrumented", hs == [], only=["C06", "C01"])
    else:
        c.prove(f"{label}/no-try-when-nothing-to-bracket", try_ is None, only=["C06"])
        body = inner
    evs = PE.events(body)
    names = [e.name for e in evs]
    if d_enter:
        c.prove(f"{label}/#enter-first", names[:1] == ["#enter"] and evs[0].sig()[2] == PE.dump(ast.Name(id="__ptera_enter_tag", ctx=ast.Load())), only=["C06"])
    else:
        c.prove(f"{label}/no-#enter-when-not-instrumented", "#enter" not in names, only=["C06"])
    # ---- C02: prelude + parameters in signature order
    params = [a.arg for a in (original.args.posonlyargs + original.args.args + original.args.kwonlyargs)] + \
             ([original.args.vararg.arg] if original.args.vararg else []) + ([original.args.kwarg.arg] if original.args.kwarg else [])
    anns = {a.arg: a.annotation for a in original.args.posonlyargs + original.args.args + original.args.kwonlyargs}
    exp = []
    if dec.get(("g", None)):
        exp.append(("g", None, None, PE.dump(parse_expr("__ptera_globals['g']")), True))
    for fv in free:
        if dec.get((fv, None)):
            exp.append((fv, None, None, PE.dump(ast.Name(id=fv, ctx=ast.Load())), False))
    for p in params:
        a = anns.get(p)
        akey = None if a is None else PE.dump(tr_ann(ast.unparse(a)))
        if dec.get((p, akey)):
            exp.append((p, None, akey, PE.dump(ast.Name(id=p, ctx=ast.Load())), True))
    got = [e.sig() for e in evs if e.name != "#enter"][:len(exp)]
    c.prove(f"{label}/prelude-and-parameters-reported-in-order", got == exp, note=f"{got} vs {exp}", only=["C02", "C11", "C04"])
    # C04: a variable captured from an enclosing function is never silently overridden.  The report made on entry is the only interaction
    # about it that is NOT overridable (that is where an override attempt is turned into an error): it is made for every closure variable
    # of the capture set, whether the function reads it, only rebinds it (`nonlocal n; n += x`) or does neither
    for fv in free:
        if dec.get((fv, None)):
            rep = [e for e in evs if e.name == fv and e.sig()[3] == PE.dump(ast.Name(id=fv, ctx=ast.Load())) and e.sig()[4] is False]
            c.prove(f"{label}/closure-variable-reported-on-entry-as-not-overridable", len(rep) >= 1 and evs.index(rep[0]) <= 2, note=f"{fv}: {len(rep)} reports", only=["C04"])
            # ... and no binding of it inside the function is overridable either (`nonlocal fv; fv = E`): an override that declines on
            # entry and accepts at the assignment would otherwise rebind the enclosing function's variable without any report
            soft = [e.sig() for e in evs if e.name == fv and e.sig()[4] is not False]
            c.prove(f"{label}/no-binding-of-a-closure-variable-is-overridable", soft == [], note=str(soft), only=["C04"])
    # ---- C06: a #value event on every normal completion
    last = body[-1] if body else None
    completes = not isinstance(last, (ast.Return, ast.Raise))
    # whenever #value is in the capture set: a body whose last statement can complete normally ends without a #value event
    c.prove(f"{label}/#value-on-every-normal-completion(falling-off-the-end)", not completes, only=["C06"])
    # ---- C16: externals
    stmts = [s for s in body if isinstance(s, ast.Assign) and isinstance(s.value, (ast.Subscript, ast.Call)) and
             "__ptera_globals" in PE.dump(s.value)]
    if not dec.get(("g", None)):
        unchecked = [s for s in stmts if isinstance(s.value, ast.Subscript)]
        c.prove("external-outside-the-capture-set-is-not-bound-to-the-marker-unchecked", not unchecked, only=["C16"], note=label)
    else:
        c.prove("external-is-fetched-where-it-is-used-not-eagerly-at-entry", not stmts, only=["C16"], note=label)


# ---------------------------------------------------------------------------------------------
# ExternalVariableCollector vs Python's own scoping (C10)
# ---------------------------------------------------------------------------------------------
SCOPE_PROGRAMS = [
    ("parameters", "def f(a, b=1, *args, k=2, **kw):\n    return a", {"a": "argument", "b": "argument", "args": "argument", "k": "argument", "kw": "argument"}),
    ("assign", "def f():\n    x = 1\n    y, (z, w) = x, (2, 3)\n    q: int = 4\n    x += 1\n    return x", {"x": "body", "y": "body", "z": "body", "w": "body", "q": "body"}),
    ("for-while-if", "def f(xs):\n    for i, j in xs:\n        a = i\n    while a:\n        b = a\n    if a:\n        cc = 1\n    else:\n        d = 2\n    return a", {"i": "body", "j": "body", "a": "body", "b": "body", "cc": "body", "d": "body", "xs": "argument"}),
    ("with", "def f(m):\n    with m as w:\n        v = w\n    return v", {"w": "body", "v": "body", "m": "argument"}),
    ("except-name", "def f():\n    try:\n        pass\n    except Exception as e:\n        pass\n    return 1", {"e": "body", "Exception": "external"}),
    ("except-body", "def f():\n    try:\n        pass\n    except ValueError:\n        inside = 1\n    return inside", {"inside": "body", "ValueError": "external"}),
    ("try-finally", "def f():\n    try:\n        t = 1\n    finally:\n        u = 2\n    return t + u", {"t": "body", "u": "body"}),
    ("import", "def f():\n    import os\n    import os.path as p\n    from sys import argv as av\n    return os, p, av", {"os": "body", "p": "body", "av": "body"}),
    ("import-dotted", "def f():\n    import os.path\n    import xml.dom\n    return os", {"os": "body", "xml": "body"}),
    ("walrus", "def f(a):\n    if (n := a):\n        pass\n    return n", {"n": "body", "a": "argument"}),
    ("nested-def", "def f():\n    def g():\n        return 1\n    return g()", {"g": "body"}),
    ("nested-class", "def f():\n    class A:\n        pass\n    return A()", {"A": "body"}),
    ("globals-read", "def f():\n    return len(GLOB)", {"len": "external", "GLOB": "external"}),
    ("closure", "def f():\n    return fv + 1", {"fv": "closure"}),
    ("closure-read-only-in-nested-class-body", "def f():\n    class A:\n        inc = fv\n        glob = GLOB2\n    return A", {"fv": "closure", "A": "body"}),
    ("closure-read-only-in-nested-def", "def f():\n    def g():\n        return fv\n    return g", {"fv": "closure", "g": "body"}),
    ("reads-its-own-name", "def f(k):\n    return k * f(k - 1)", {"f": "external", "k": "argument"}),
    ("closure-reads-its-own-name", "def fv(n):\n    return fv(n - 1)", {"fv": "closure", "n": "argument"}),
    ("parameter-reassigned", "def f(a):\n    a = a + 1\n    return a", {"a": "argument"}),
    ("global-declared-and-assigned", "def f():\n    global GG\n    GG = 1\n    return GG", {"GG": "external"}),
    ("closure-nonlocal-rebound", "def f():\n    nonlocal fv\n    fv += 1\n    return fv", {"fv": "closure"}),
    ("lambda-parameter-shadows-local", "def f():\n    k = 1\n    g = lambda k: k\n    return g(k)", {"k": "body", "g": "body"}),
]


@unit("collector", ["C10", "C01"], [TR + ":ExternalVariableCollector.__init__", TR + ":ExternalVariableCollector.visit_FunctionDef",
                                    TR + ":ExternalVariableCollector.visit_Name", TR + ":ExternalVariableCollector.visit_ExceptHandler",
                                    TR + ":ExternalVariableCollector.visit_Import", TR + ":ExternalVariableCollector.visit_ImportFrom",
                                    TR + ":ExternalVariableCollector.visit_arg", TR + ":PteraTransformer.__init__",
                                    AST + ":NodeVisitor.visit", AST + ":NodeVisitor.generic_visit"],
      assumed=["Python's scoping rules are taken from CPython's own symtable for the same source (trusted oracle)",
               "the info table of transform() is keys(used | assigned) with provenance from the collector (transform() itself is out of reach)"])
def u_collector(c):
    """For each placement of a binding or read (parameters, every assignment form, loop/with/except targets, names bound
    only inside except / try / finally bodies, imports, walrus, nested def / class, global reads, closure variables):
    the name is in the variable table and its provenance agrees with Python's scoping (CPython symtable)."""
    import symtable

    it = Interp(c)

    def hook(mod, name):
        if mod == "ast" and name in ("NodeTransformer", "NodeVisitor"):
            return it.get_global(AST, name)
        return None

    it.import_hook = hook
    it.module_env(AST).vars["iter_fields"] = ast.iter_fields
    it.module_env(AST).vars["AST"] = ast.AST
    it.policies[AST + ":NodeVisitor.visit_Constant"] = lambda it_, f, a, k: it_.call(it_.getattr(a[0], "generic_visit"), [a[1]], {})
    k = c.choose(len(SCOPE_PROGRAMS), "program")
    label, src, expect = SCOPE_PROGRAMS[k]
    closure = ("fv",) if label.startswith("closure") else ()
    tree = ast.parse(src).body[0]
    st, evc = run(it, it.get_global(TR, "ExternalVariableCollector"), [tree, {}, closure])
    c.prove(f"{label}/collector-does-not-raise", st == "ok")
    if st != "ok":
        return
    used, assigned, freev = evc.fields["used"], evc.fields["assigned"], evc.fields["free"]
    prov = dict(evc.fields["provenance"])
    external = set(used) - set(assigned) - set(freev)
    for e in external:
        prov[e] = "external"
    table = set(used) | set(assigned)
    # oracle: CPython's symbol table for the same source
    wrapped = ("def outer():\n    fv = 0\n" + "\n".join("    " + ln for ln in src.splitlines())) if closure else src
    top = symtable.symtable(wrapped, "<scope>", "exec")
    fsym = top.get_children()[0]
    if closure:
        fsym = fsym.get_children()[0]
    for sym in fsym.get_symbols():
        nm = sym.get_name()
        if sym.is_parameter():
            kind = "argument"
        elif sym.is_free():
            kind = "closure"
        elif sym.is_local():
            kind = "body"
        elif sym.is_global():
            kind = "external"
        else:
            continue
        c.prove(f"{label}/name-in-table:{kind}", nm in table, note=nm)
        c.prove(f"{label}/provenance-agrees-with-python:{kind}", prov.get(nm) == kind, note=f"{nm}: ptera={prov.get(nm)} python={kind}")
    for nm, kind in expect.items():
        c.prove(f"{label}/spec-self-check", any(s.get_name() == nm for s in fsym.get_symbols()), kind="auxiliary")


SCOPE_PROGRAMS_MORE = [
    # what a name is, is decided by the scope that binds it: a nested lambda / def with a parameter or a `global` declaration of the same
    # name changes nothing for the enclosing function; a parameter stays a parameter however it is bound again
    ("local-bound-after-a-lambda-with-that-parameter", "def f():\n    g = lambda y: y\n    y = 1\n    return g(y)", {"y": "body"}),
    ("local-with-a-nested-global-declaration", "def f():\n    def g():\n        global zz\n        zz = 1\n    zz = 2\n    return zz", {"zz": "body"}),
    ("parameter-rebound-as-exception-name", "def f(e):\n    try:\n        pass\n    except ValueError as e:\n        pass\n    return 1", {"e": "argument"}),
    ("parameter-rebound-by-import", "def f(os):\n    import os\n    return os", {"os": "argument"}),
    ("parameter-rebound-by-def", "def f(h):\n    def h():\n        return 1\n    return h", {"h": "argument"}),
    ("global-declared-and-imported", "def f():\n    global sys\n    import sys\n    return sys", {"sys": "external"}),
    ("match-patterns", "def f(p):\n    match p:\n        case [a, *rest]:\n            return a, rest\n        case {'k': v, **others}:\n            return v\n        case str() as s:\n            return s",
     {"a": "body", "rest": "body", "v": "body", "others": "body", "s": "body"}),
    ("nested-coroutine", "def f():\n    async def inner():\n        return 1\n    return inner", {"inner": "body"}),
    ("cell-parameter", "def f(a):\n    def g():\n        return a\n    return g", {"a": "argument", "g": "body"}),
    ("comprehension-variable", "def f(xs):\n    r = [i for i in xs]\n    return r", {"r": "body"}),
]


@unit("python-scoping", ["C10"], [TR + ":_python_scoping"], mode="bounded",
      bound=f"{len(SCOPE_PROGRAMS) + len(SCOPE_PROGRAMS_MORE)} programs, one per placement of a binding or a read; compiled by CPython, classified by the real function, compared with CPython's symtable",
      assumed=["Python's scoping rules are taken from CPython's own symtable for the same source (trusted oracle)", "dis.get_instructions lists the instructions of the code object"])
def u_python_scoping(c):
    """The provenance recorded for a variable (argument, body, closure, external) is read off the code object CPython compiled for the
    function: for every name of the function's own scope it agrees with Python's scoping of that name."""
    import symtable

    it = Interp(c)
    it.module_env(TR).vars["inspect"] = __import__("inspect")
    progs = SCOPE_PROGRAMS + SCOPE_PROGRAMS_MORE
    label, src, expect = progs[c.choose(len(progs), "program")]
    closure = label.startswith("closure")
    wrapped = ("def outer():\n    fv = 0\n" + "\n".join("    " + ln for ln in src.splitlines()) + "\n    return " + src.split("(")[0].split()[1]) if closure else src
    ns = {}
    exec(compile(wrapped, "<scope>", "exec"), ns)
    name = src.split("(")[0].split()[1]
    fn = ns["outer"]() if closure else ns[name]
    st, scoping = run(it, it.get_global(TR, "_python_scoping"), [fn.__code__])
    c.prove(f"{label}/does-not-raise", st == "ok", note=repr(scoping))
    if st != "ok":
        return
    scoping = dict(scoping)
    top = symtable.symtable(wrapped, "<scope>", "exec")
    fsym = top.get_children()[0]
    if closure:
        fsym = fsym.get_children()[0]
    seen = 0
    for sym in fsym.get_symbols():
        nm = sym.get_name()
        kind = "argument" if sym.is_parameter() else "closure" if sym.is_free() else "body" if sym.is_local() else "external" if sym.is_global() else None
        if kind is None:
            continue
        seen += 1
        if kind == "external" and nm not in fn.__code__.co_names:
            continue  # a name that only stands in the annotation of a local: never evaluated, the code object does not mention it
        c.prove(f"{label}/provenance-agrees-with-python:{kind}", scoping.get(nm) == kind, note=f"{nm}: ptera={scoping.get(nm)} python={kind}")
    c.prove(f"{label}/only-names-of-the-function's-own-scope", set(scoping) <= {s_.get_name() for s_ in fsym.get_symbols()}, note=str(sorted(map(str, scoping))))
    for nm, kind in expect.items():
        c.prove(f"{label}/spec-self-check", any(s_.get_name() == nm for s_ in fsym.get_symbols()) and scoping.get(nm) == kind, note=f"{nm}: {scoping.get(nm)} expected {kind}")


# ---------------------------------------------------------------------------------------------
# transform(): the orchestration around the transformer (bounded: sample functions in a real module file)
# ---------------------------------------------------------------------------------------------
SAMPLE_MODULE = '''
GLOBAL = 10

def plain(a, b=2):
    # the sum
    c = a + b
    return c + GLOBAL

def outer(k):
    def closure(x):
        y = x + k
        return y
    return closure

def outer2(k):
    def closure2(x, y=2, *rest, bias=7, tag="t"):
        z = x + k + y + bias
        return z, tag, rest
    return closure2

def gen(n):
    for i in range(n):
        yield i

def annotated(x: "@T", *rest, flag=False, **kw):
    """doc"""
    z: int = x
    return z

class K:
    def method(self, v):
        w = v * 2
        return w

class Texts:
    def indented(self, v):
        s = """first
        continuation line of an indented method"""
        w = v
        return s, w

    def column_zero(self, v):
        s = """
text at column zero
"""
        w = v
        return s, w

class _Vault:
    def __init__(self):
        self.__v = 5

    def __half(self, k):
        return k // 2

    def private_names(self, v, __k=3):
        from os import path as __p
        w = self.__v + self.__half(v) + __k + len(__p.sep)
        self.__last = w
        return w, sorted(vars(self))

    def nested_reader(self):
        def reader(d):
            r = self.__v + d
            return r
        return reader

    class Drawer:
        def private_names_in_a_nested_class(self, v):
            self.__slot = v + 1
            __tmp = self.__slot * 2
            return __tmp, sorted(vars(self))

def matcher(p):
    match p:
        case [a, *rest]:
            return a, rest
        case {"k": v, **others}:
            return v, others
        case str() as s:
            return s
    return None

async def coroutine(x):
    y = x
    return y

lam = lambda x: x

EVALS = []

def fresh(tag):
    EVALS.append(tag)
    return len(EVALS)

def with_defaults(x: fresh("ann-x") = fresh("x"), *, k: fresh("ann-k") = fresh("k")) -> fresh("ann-return"):
    r = x * 10 + k
    return r

def factory():
    local_default = 5
    def inner(x: int = local_default):
        q = x + 1
        return q
    return inner

def siblings():
    n = 0
    def inc():
        nonlocal n
        n += 1
    def get():
        v = n
        return v
    return inc, get
'''


@unit("transform-orchestration", ["C01", "C10", "C05", "C14", "C03", "C13"], [TR + ":transform", TR + ":_compile", TR + ":PteraTransformer.__init__",
                                                                 TR + ":ExternalVariableCollector.__init__", TR + ":_readline_mock", TR + ":_standard_info",
                                                                 TR + ":_Conformer.__init__", TR + ":_gensym"],
      mode="bounded", bound="six sample functions (plain, closure, closure with positional and keyword-only defaults, generator, annotated/varargs/docstring, method) x {all variables, one variable}; "
                            "inspect/tokenize/compile/exec executed natively on the concrete function",
      assumed=["inspect.getsource / getsourcelines / getsourcefile return the text the function was compiled from",
               "compile() and exec() of the rewritten tree behave as CPython documents"])
def u_transform_orchestration(c):
    """transform(fn, proceed, to_instrument): executed from its real body on real function objects.  The original function and the
    module's global binding of its name are left untouched; the result is a NEW function with the same name, defaults and closure
    cells; its __ptera_info__ table has exactly the names the function binds or reads (plus the meta-variables) with the provenance
    Python's scoping gives them; __ptera_token__ names a global holding the new function (self-reference for proceed)."""
    import importlib.util
    import os
    import shutil
    import symtable
    import tempfile

    it = Interp(c)

    def hook(mod, name):
        if mod == "ast" and name in ("NodeTransformer", "NodeVisitor"):
            return it.get_global(AST, name)
        if mod == "codefind":
            import codefind

            return getattr(codefind, name) if name else codefind
        return None

    it.import_hook = hook
    it.module_env(AST).vars["iter_fields"] = ast.iter_fields
    it.module_env(AST).vars["AST"] = ast.AST
    it.policies[AST + ":NodeVisitor.visit_Constant"] = lambda it_, f, a, k: it_.call(it_.getattr(a[0], "generic_visit"), [a[1]], {})
    for nm in ("inspect", "tokenize", "sys", "types"):
        it.module_env(TR).vars[nm] = __import__(nm)

    class _NativeTable(dict):
        """Stands for ptera.transform._InfoTable (a dict subclass with one attribute; the engine has no model of subclasses of dict)."""
        loopvars = frozenset()

    it.module_env(TR).vars["_InfoTable"] = _NativeTable
    d = tempfile.mkdtemp(prefix="pvc_transform_")
    try:
        p = os.path.join(d, f"pvc_sample_{c.new_id()}.py")
        open(p, "w").write(SAMPLE_MODULE)
        spec = importlib.util.spec_from_file_location(os.path.basename(p)[:-3], p)
        mod = importlib.util.module_from_spec(spec)
        spec.loader.exec_module(mod)
        which = c.choose(18, "function")
        if which >= 14:
            which -= 3  # (the objects that cannot be instrumented are 11-13 below)
        elif which >= 11:
            # objects that cannot be instrumented are refused with the documented TypeError (C10), not an assertion / OSError
            ns = {}
            exec("def made_by_exec(x):\n    y = x\n    return y\n", ns)
            bad = [mod.coroutine, mod.lam, ns["made_by_exec"]][which - 11]
            st, r = run(it, it.get_global(TR, "transform"), [bad, SymObj("proceed", Val.ref(z3.IntVal(c.new_id())))], dict(to_instrument=True))
            c.prove(f"not-instrumentable/{['async-def', 'lambda', 'no-source'][which - 11]}/refused-with-TypeError", st == "raise" and isinstance(r, TypeError),
                    note=f"{st} {r!r}", only=["C10"])
            return
        inc, get = mod.siblings()
        fn = [mod.plain, mod.outer(5), mod.gen, mod.annotated, mod.K.method, mod.outer2(3), mod.with_defaults, mod.factory(), get,
              mod.Texts.indented, mod.Texts.column_zero, mod._Vault.private_names, mod.matcher, mod._Vault().nested_reader(), mod._Vault.Drawer.private_names_in_a_nested_class][which]
        label = ["plain", "closure", "generator", "annotated", "method", "closure-with-defaults", "default-expressions", "defaults-from-enclosing-scope",
                 "closure-rebound-by-sibling", "method-with-multi-line-string", "method-with-text-at-column-zero", "method-with-private-names", "match-statement", "closure-in-a-method-with-private-names", "method-of-a-nested-class-with-private-names"][which]
        samples = {"plain": [(1,), (1, 5)], "closure": [(4,)], "generator": [], "annotated": [(3,), (3, 4, 5)], "method": [(None, 2)],
                   "closure-with-defaults": [(1,), (1, 9), (1, 9, 8)], "default-expressions": [(), (7,)], "defaults-from-enclosing-scope": [(), (3,)],
                   "closure-rebound-by-sibling": [()], "method-with-multi-line-string": [(None, 1)], "method-with-text-at-column-zero": [(None, 1)],
                   # (names starting with two underscores are private to the class body they are written in: CPython compiles them as
                   # _Class__name, and so must the rebuilt method)
                   "method-with-private-names": [(mod._Vault(), 4), (mod._Vault(), 4, 1)],
                   "match-statement": [([1, 2, 3],), ({"k": 1, "z": 2},), ("text",), (5,)],
                   "closure-in-a-method-with-private-names": [(1,)],
                   # (the names are private to the INNERMOST class: _Drawer__slot, not _Vault__slot)
                   "method-of-a-nested-class-with-private-names": [(mod._Vault.Drawer(), 3)]}[label]
        evals_before = list(mod.EVALS)
        ksamples = {"closure-with-defaults": [{}, {"bias": 1}, {"tag": "q", "bias": 0}], "annotated": [{}, {"flag": True, "extra": 1}]}.get(label, [{}])

        class NProceed:
            """A transparent native frame: interact returns the value it is given."""

            def __init__(self, f):
                pass

            def __enter__(self):
                return self

            def __exit__(self, *a):
                return None

            def interact(self, v, k, cat, value, o):
                return value

        proceed = NProceed
        everything = bool(c.choose(2, "all-variables"))
        Element = it.get_global("ptera.selector", "Element")
        first_local = {"plain": "c", "closure": "y", "generator": "i", "annotated": "z", "method": "w", "closure-with-defaults": "z",
                       "default-expressions": "r", "defaults-from-enclosing-scope": "q", "closure-rebound-by-sibling": "v",
                       "method-with-multi-line-string": "w", "method-with-text-at-column-zero": "w", "method-with-private-names": "w", "match-statement": "rest", "closure-in-a-method-with-private-names": "r", "method-of-a-nested-class-with-private-names": "_Drawer__tmp"}[label]
        to_instrument = True if everything else [it.call(Element, [], dict(name=first_local, capture=first_local))]
        glb = fn.__globals__
        before_name = glb.get(fn.__name__, "<<missing>>")
        code_before, defaults_before, cells_before = fn.__code__, fn.__defaults__, list(fn.__closure__ or ())
        kwdefaults_before, annotations_before = fn.__kwdefaults__, dict(fn.__annotations__)
        st, new = run(it, it.get_global(TR, "transform"), [fn, proceed], dict(to_instrument=to_instrument))
        c.prove(f"{label}/transform-does-not-raise", st == "ok", note=repr(new) if st != "ok" else "")
        if st != "ok":
            return
        c.prove(f"{label}/returns-a-new-function-with-the-same-name-and-defaults", new is not fn and callable(new) and new.__name__ == fn.__name__
                and new.__defaults__ == defaults_before and new.__kwdefaults__ == kwdefaults_before,
                note=f"defaults {new.__defaults__!r}/{new.__kwdefaults__!r} vs {defaults_before!r}/{kwdefaults_before!r}")
        # the default and annotation expressions belong to the ORIGINAL definition: building the instrumented function evaluates
        # nothing of the user's program a second time (no side effect, no different value, no NameError for enclosing locals)
        new_evals = list(mod.EVALS)[len(evals_before):]
        param_anns = [e for e in new_evals if e.startswith("ann-") and e != "ann-return"]
        c.prove(f"{label}/default-and-annotation-expressions-not-evaluated-again", [e for e in new_evals if e not in param_anns] == [],
                note=f"evaluated again: {new_evals}", only=["C01"])
        # the transformer itself evaluates the annotation expressions of the parameters it looks at (to obtain their tags): recorded finding
        # (same family as the local-annotation one); the rewritten definition must not evaluate them a further time
        c.prove(f"{label}/parameter-annotations-not-evaluated-by-the-instrumentation", param_anns == [], note=f"evaluated again: {param_anns}", only=["C01"])
        c.prove(f"{label}/parameter-annotations-evaluated-at-most-once-more", all(param_anns.count(e) <= 1 for e in param_anns), note=f"{param_anns}", only=["C01"])
        c.prove(f"{label}/same-annotations", dict(getattr(new, "__annotations__", {})) == annotations_before, only=["C01"])
        c.prove(f"{label}/original-function-untouched", fn.__code__ is code_before and fn.__defaults__ == defaults_before
                and not hasattr(fn, "__ptera_info__"))
        c.prove(f"{label}/global-binding-of-the-name-restored", glb.get(fn.__name__, "<<missing>>") is before_name,
                note=f"{fn.__name__!r} was {before_name!r}, now {glb.get(fn.__name__, '<<missing>>')!r}")
        # the rebuilt function shares the CELLS of the original (not a snapshot of their contents): a later re-binding of a closure
        # variable by a sibling closure is seen by both
        c.prove(f"{label}/closure-cells-shared", len(new.__closure__ or ()) == len(cells_before) and all(a is b for a, b in zip(new.__closure__ or (), cells_before))
                and new.__code__.co_freevars == fn.__code__.co_freevars)
        if label == "closure-rebound-by-sibling":
            inc()
        # behaviour on samples: with a transparent frame the rebuilt function returns what the original returns.  The rebuilt code is
        # run by CPython, so the helper objects transform() put into the globals (created by the interpreter) are replaced by the
        # real ones from the imported library
        import importlib as _il

        _u, _t, _g = _il.import_module("ptera.utils"), _il.import_module("ptera.transform"), _il.import_module("ptera.tags")
        import builtins as _bi

        glb.update({"__ptera_globals": _u.DictPile(glb, vars(_bi), default=_u.ABSENT), "__ptera_ABSENT": _u.ABSENT, "__ptera_Key": _t.Key,
                    "__ptera_get_tags": _g.get_tags, "__ptera_enter_tag": _g.enter_tag, "__ptera_exit_tag": _g.exit_tag})
        same = True
        detail = ""
        for a in samples:
            for kw in ksamples:
                try:
                    want = ("ok", fn(*a, **kw))
                except Exception as e:  # noqa
                    want = ("raise", type(e).__name__)
                try:
                    got = ("ok", new(*a, **kw))
                except Exception as e:  # noqa
                    got = ("raise", type(e).__name__)
                if want != got:
                    same = False
                    detail = f"args={a} kwargs={kw}: original {want} rebuilt {got}"
        c.prove(f"{label}/rebuilt-function-behaves-like-the-original-on-samples", same, note=detail, only=["C01"])
        tok = getattr(new, "__ptera_token__", None)
        c.prove(f"{label}/token-is-a-global-holding-the-new-function", isinstance(tok, str) and glb.get(tok) is new)
        # an activation announces itself through that global: it must name ONE function object.  Two function objects made by the same
        # definition (closures of one factory, the same function instrumented again) get globals of their own, otherwise the one
        # instrumented last answers for the activations of the other (events attributed to the wrong call: C03, C13)
        twin = {"closure": lambda: mod.outer(6), "closure-with-defaults": lambda: mod.outer2(4), "defaults-from-enclosing-scope": mod.factory,
                "closure-rebound-by-sibling": lambda: mod.siblings()[1]}.get(label, lambda: fn)()
        st2, new2 = run(it, it.get_global(TR, "transform"), [twin, proceed], dict(to_instrument=to_instrument))
        tok2 = getattr(new2, "__ptera_token__", None) if st2 == "ok" else None
        c.prove(f"{label}/function-made-by-the-same-definition-gets-a-token-of-its-own", st2 == "ok" and isinstance(tok2, str) and tok2 != tok
                and glb.get(tok2) is new2 and glb.get(tok) is new, note=f"{tok!r} / {tok2!r}", only=["C03", "C13", "C14", "C05"])
        # the reference of a function resolves through its code object: no other function object that shares the rebuilt code (the
        # template a closure is rebuilt from) may be taken for it -- it is marked as not being a function of the program
        import gc as _gc

        others = [o for o in _gc.get_referrers(new.__code__) if isinstance(o, type(new)) and o is not new and not getattr(o, "__ptera_discard__", False)]
        c.prove(f"{label}/no-second-function-object-answers-for-the-rebuilt-code", others == [], note=str(others), only=["C14"])
        info = getattr(new, "__ptera_info__", None)
        c.prove(f"{label}/info-table-present", isinstance(info, dict))
        if isinstance(info, dict):
            # oracle: CPython's symbol table of the same source
            import inspect as _inspect
            import textwrap as _tw

            src = _inspect.getsource(fn)
            if src[:1] in (" ", "\t"):
                try:
                    src = _tw.dedent(src)
                    compile(src, "<s>", "exec")
                except SyntaxError:
                    src = "if 1:\n" + _inspect.getsource(fn)  # text at column zero inside an indented definition
            is_closure = bool(fn.__closure__)
            binds = "".join(f"    {nm} = 0\n" for nm in fn.__code__.co_freevars)
            wrapped = ("def __o():\n" + binds + "\n".join("    " + ln for ln in src.splitlines())) if is_closure else src
            owner = fn.__qualname__.split(".")[-2:-1]
            in_class = bool(owner) and owner[0] != "<locals>" and not is_closure
            if in_class:
                # a method is compiled in the body of its class (private names are mangled with the name of that class)
                wrapped = f"class {owner[0]}:\n" + "\n".join("    " + ln for ln in src.splitlines())
            top = symtable.symtable(wrapped, "<s>", "exec")
            fs = top.get_children()[0]
            if is_closure or in_class:
                fs = fs.get_children()[0]
            want = {}
            for sym in fs.get_symbols():
                kind = "argument" if sym.is_parameter() else "closure" if sym.is_free() else "body" if sym.is_local() else "external" if sym.is_global() else None
                if kind:
                    want[sym.get_name()] = kind
            meta = {"#enter", "#exit", "#receive", "#yield"}
            c.prove(f"{label}/info-keys-are-the-function's-names-plus-meta", set(info) == set(want) | meta, note=f"{sorted(info)} vs {sorted(want)}")
            c.prove(f"{label}/provenance-agrees-with-python", all(isinstance(info.get(n), dict) and info[n].get("provenance") == k_ for n, k_ in want.items()),
                    note=str({n: (info.get(n) or {}).get("provenance") for n in want}))
            c.prove(f"{label}/entries-carry-name-annotation-doc-location", all(set(e) == {"name", "annotation", "provenance", "doc", "location"} and e["name"] == n
                                                                              for n, e in info.items()))
            # the table knows which variables are targets of a for loop of the function itself (the names #loop_x / #endloop_x exist for)
            import inspect as _insp2
            import textwrap as _tw2

            try:
                _tree = ast.parse(_tw2.dedent(_insp2.getsource(fn)))
            except SyntaxError:
                _tree = ast.parse("if 1:\n" + _insp2.getsource(fn))
            _root = next(n for n in ast.walk(_tree) if isinstance(n, ast.FunctionDef))
            _loops, _todo = set(), list(_root.body)
            while _todo:
                n_ = _todo.pop()
                if isinstance(n_, (ast.FunctionDef, ast.AsyncFunctionDef, ast.Lambda, ast.ClassDef)):
                    continue
                if isinstance(n_, ast.For):
                    _loops |= {x.id for x in ast.walk(n_.target) if isinstance(x, ast.Name)}
                _todo.extend(ast.iter_child_nodes(n_))
            c.prove(f"{label}/table-knows-the-loop-variables", set(getattr(info, "loopvars", ())) == _loops, note=f"{sorted(getattr(info, 'loopvars', ()))} vs {sorted(_loops)}",
                    only=["C10", "C01"])
            if label == "plain":
                c.prove("plain/comment-above-a-binding-becomes-its-doc", info["c"]["doc"] == "the sum")
        for k_ in [k_ for k_ in list(glb) if k_.startswith("__ptera_") or k_.startswith("_ptera__")]:
            pass
    finally:
        shutil.rmtree(d, ignore_errors=True)
