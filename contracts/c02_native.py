"""Bounded native stand-in for the end-to-end reading of C02 (composition of the proved transformer and runtime contracts
through transform(), which the engine cannot reach): for every corpus program of contracts/c01_native.py and every local
variable v, the stream of probing('target > v') is compared with an INDEPENDENT reference: the binding history of v recorded
by a CPython opcode tracer (every STORE_FAST / STORE_DEREF of v in the function's own frame, plus the parameter binding at
entry).  Labelled bounded; never counted as proved."""
import ast
import dis
import importlib.util
import inspect
import os
import shutil
import sys
import tempfile
import textwrap

from contracts.c01_native import CORPUS, _cases

STORES = {"STORE_FAST", "STORE_DEREF", "STORE_NAME"}


def reference_history(fn, call, var):
    """Binding history of `var` in activations of fn's code, from CPython's own bytecode."""
    code = fn.__code__
    instrs = {i.offset: i for i in dis.get_instructions(code)}
    # implicit stores that are not bindings made by the source text: the `e = None` cleanup at the end of an except clause
    cleanup = set()
    ordered = sorted(instrs)
    for k, off in enumerate(ordered):
        ins = instrs[off]
        if ins.opname in STORES and k + 1 < len(ordered) and instrs[ordered[k + 1]].opname in ("DELETE_FAST", "DELETE_DEREF", "DELETE_NAME") \
                and instrs[ordered[k + 1]].argval == ins.argval:
            cleanup.add(off)
    hist = []
    pending = {}
    entered = set()
    keep = []  # keeps frames alive so that ids are not reused

    def flush(frame):
        if id(frame) in pending:
            name = pending.pop(id(frame))
            if name in frame.f_locals:
                hist.append(frame.f_locals[name])

    def tracer(frame, event, arg):
        if frame.f_code is not code:
            return None
        frame.f_trace_opcodes = True
        if event == "call":
            params = code.co_varnames[:code.co_argcount + code.co_kwonlyargcount + bool(code.co_flags & 4) + bool(code.co_flags & 8)]
            if id(frame) not in entered:  # first entry of this activation (generators are re-entered on every resumption)
                entered.add(id(frame))
                keep.append(frame)
                if var in params and var in frame.f_locals:
                    hist.append(frame.f_locals[var])
            return tracer
        flush(frame)
        if event == "opcode":
            ins = instrs.get(frame.f_lasti)
            if ins is not None and ins.opname in STORES and ins.argval == var and frame.f_lasti not in cleanup:
                pending[id(frame)] = var
        return tracer

    old = sys.gettrace()
    sys.settrace(tracer)
    try:
        try:
            call()
        except BaseException:  # noqa
            pass
    finally:
        sys.settrace(old)
    return hist


def _drive(fn, mkargs, kind):
    args = mkargs()
    kwargs = kind if isinstance(kind, dict) else {}
    if kind == "gen":
        it = fn(*args)
        next(it)
        try:
            it.send("s1")
            it.send("s2")
            it.send("s3")
        except StopIteration:
            pass
    else:
        fn(*args, **kwargs)


def _own_variables(fn):
    """Names bound by the function's own body (comprehension targets, nested scopes excluded)."""
    src = textwrap.dedent(inspect.getsource(fn))
    tree = ast.parse(src).body[0]
    names = []

    class V(ast.NodeVisitor):
        def visit_FunctionDef(self, n):
            if n is tree:
                for a in n.args.posonlyargs + n.args.args + n.args.kwonlyargs:
                    names.append(a.arg)
                if n.args.vararg:
                    names.append(n.args.vararg.arg)
                if n.args.kwarg:
                    names.append(n.args.kwarg.arg)
                for s in n.body:
                    self.visit(s)

        def visit_ClassDef(self, n):
            pass

        def visit_Lambda(self, n):
            pass

        def visit_ListComp(self, n):
            # the comprehension's own targets are not variables of the function; a walrus inside binds in the function
            for x in ast.walk(n):
                if isinstance(x, ast.NamedExpr):
                    names.append(x.target.id)

        visit_SetComp = visit_DictComp = visit_GeneratorExp = visit_ListComp

        def visit_Name(self, n):
            if isinstance(n.ctx, ast.Store):
                names.append(n.id)

        def visit_ExceptHandler(self, n):
            if n.name:
                names.append(n.name)
            self.generic_visit(n)

        def visit_Import(self, n):
            for a in n.names:
                names.append((a.asname or a.name).split(".")[0])

        visit_ImportFrom = visit_Import

        def visit_Global(self, n):
            for g in n.names:
                names.append("-" + g)

    V().visit(tree)
    excluded = {n[1:] for n in names if n.startswith("-")}
    out = []
    for n in names:
        if not n.startswith("-") and n not in excluded and n not in out:
            out.append(n)
    return out


def native_checks(tier, seed):
    sys.path.insert(0, os.environ.get("PVC_REPO", "/repo"))
    from ptera import probing

    d = tempfile.mkdtemp(prefix="pvc_c02_")
    counter = [0]
    bad = []
    n = 0

    def fresh():
        counter[0] += 1
        nm = f"pvc_c02_corpus_{counter[0]}"
        p = os.path.join(d, nm + ".py")
        open(p, "w").write(CORPUS)
        spec = importlib.util.spec_from_file_location(nm, p)
        mod = importlib.util.module_from_spec(spec)
        sys.modules[nm] = mod
        spec.loader.exec_module(mod)
        return mod

    try:
        ncases = len(_cases(fresh()))
        for ci in range(ncases):
            m0 = fresh()
            name, fn, mkargs, kind = _cases(m0)[ci]
            variables = _own_variables(fn)
            if tier == "quick":
                variables = variables[:6]
            for var in variables:
                mr = fresh()
                _, fr, ar, kr = _cases(mr)[ci]
                ref = reference_history(fr, lambda: _drive(fr, ar, kr), var)
                mp = fresh()
                _, fp, ap, kp = _cases(mp)[ci]
                n += 1
                try:
                    with probing(f"target > {var}", env={"target": fp}) as prb:
                        got = prb[var].accum()
                        try:
                            _drive(fp, ap, kp)
                        except BaseException:  # noqa
                            pass
                except BaseException as e:  # noqa
                    got = [f"activation:{type(e).__name__}: {e}"]
                import re as _re
                norm = lambda x: _re.sub(r" at 0x[0-9a-f]+", "", repr(x))
                if var in fp.__code__.co_freevars:
                    continue  # closure variables are also reported on entry (documented prelude): not a binding of the body
                if [norm(x) for x in got] != [norm(x) for x in ref]:
                    bad.append((name, var, [repr(x)[:40] for x in ref], [repr(x)[:40] for x in got]))
    finally:
        shutil.rmtree(d, ignore_errors=True)
        for k_ in [k_ for k_ in sys.modules if k_.startswith("pvc_c02_corpus_")]:
            sys.modules.pop(k_, None)
    viol = []
    if bad:
        nm, var, ref, got = bad[0]
        script = ("import sys\nsys.path.insert(0, '/verif')\nfrom contracts import c02_native\nr = c02_native.native_checks('quick', 0)\n"
                  "print(r['summary'])\nsys.exit(1 if r['violations'] else 0)\n")
        viol.append({"name": "C02/native/stream-vs-bytecode-binding-history", "model": {"program": nm, "variable": var, "reference": ref, "stream": got, "count": len(bad)},
                     "goal": f"{len(bad)} (program, variable) pairs differ, e.g. {nm} > {var}: bindings {ref} but stream {got}"[:900], "path": "", "script": script})
    return {"bounded": [{"unit": "native:stream-vs-bytecode-binding-history", "bound": "corpus programs x their own variables (first 6 in quick), fixed inputs; reference = CPython opcode tracer",
                         "obligations": n, "discharged": n - len(bad)}],
            "known": [], "violations": viol, "summary": {"pairs": n, "differences": len(bad), "all": bad[:12]}}
