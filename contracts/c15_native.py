"""Bounded native stand-in for the lexing part of C15: any re-spacing or line-breaking of a selector compiles to the same
selector object (real parse(), whitespace variants of a list of documented selectors)."""
import itertools
import os
import random
import re
import sys

BASE = ["f > x", "f(a) > x", "f(a, !x)", "a > b > c", "a(b(!c))", "f() as r", "f(!#value as r)", "$x", "* as x", "f(b)=c",
        "f(b, #value=c)", "f(x:@T) > y", "f(a as z, !!b, !c)", "f(x~every(3)) > y", "f > g(a=1) > $q:@T"]
SPACES = ["", " ", "\n", "  ", "\t"]


def native_checks(tier, seed):
    sys.path.insert(0, os.environ.get("PVC_REPO", "/repo"))
    from ptera.selector import parse

    rng = random.Random(seed)
    n = 0
    bad = []
    per = 40 if tier == "quick" else 400
    for b in BASE:
        ref = parse(b)
        toks = [t for w in b.split() for t in re.split(r"(!+|[(),>:$=~])", w) if t != ""]
        for _ in range(per):
            s = ""
            for i, t in enumerate(toks):
                sp = rng.choice(SPACES)
                if t == "as" or (i + 1 < len(toks) and toks[i + 1] == "as"):
                    sp = sp or " "  # the keyword needs a separator
                s += t + sp
            s = rng.choice(SPACES) + s
            n += 1
            try:
                got = parse(s)
            except BaseException as e:  # noqa
                got = f"{type(e).__name__}: {e}"
            if got is not ref:
                bad.append((b, s, str(got)))
    viol = []
    if bad:
        b, s, got = bad[0]
        script = f'''
import sys
sys.path.insert(0, __import__("os").environ.get("PVC_REPO", "/repo"))
from ptera.selector import parse
a, b = parse({b!r}), None
try:
    b = parse({s!r})
except BaseException as e:
    b = repr(e)
print({b!r}, "->", a)
print({s!r}, "->", b)
sys.exit(0 if a is b else 1)
'''
        viol.append({"name": "C15/native/whitespace-invariance", "model": {"base": b, "variant": s, "count": len(bad)}, "goal": f"{len(bad)} re-spaced variants compile differently", "path": "", "script": script})
    return {"bounded": [{"unit": "native:whitespace-variants", "bound": f"{per} random re-spacings (spaces, tabs, newlines around every token) of each of {len(BASE)} documented selectors",
                         "obligations": n, "discharged": n - len(bad)}],
            "known": [], "violations": viol, "summary": {"variants": n, "differing": len(bad)}}
