"""Bounded native stand-in for the part of C01 the engine cannot reach (the orchestration of transform(): source retrieval,
compile/exec, closure re-creation, variant selection at call time): a fixed corpus of programs is run plain and under
non-overriding probes (every variable at once, and one variable at a time); return value / exception / yielded sequence /
ordered side-effect log / final state of mutable arguments must be identical.  Labelled bounded; never counted as proved."""
import importlib.util
import os
import shutil
import sys
import tempfile

CORPUS = '''
LOG = []
G = 10

def note(x):
    LOG.append(x)
    return x

class CM:
    def __init__(self, v): self.v = v
    def __enter__(self): note(("enter", self.v)); return self.v
    def __exit__(self, *a): note(("exit", self.v)); return False

def p_assign(a):
    x = note(a) + 1
    y = z = note(x * 2)
    return x, y, z

def p_unpack(xs):
    a, b = (i * note(i) for i in xs)
    c, *d = [a, b, a + b]
    (e, (f, g)), h = (1, (2, 3)), 4
    [p, q] = {"k1": 1, "k2": 2}
    return a, b, c, d, e, f, g, h, p, q

def p_unpack_error(xs):
    a, b = xs
    return a

def p_aug(acc, n):
    total = 0
    for i in range(n):
        acc += [i]
        total += i
    return total, acc

def p_attr_item(o, d):
    o.v = note(1)
    d["k"] = note(2)
    d[note("idx")] = note(3)
    o.v += 1
    return o.v, sorted(d, key=str)

class Traced:
    """Every load / store of an attribute or an item is a visible effect."""
    def __init__(self): object.__setattr__(self, "_d", {"v": 1, 3: 10})
    def __getattr__(self, n): note(("getattr", n)); return self._d[n]
    def __setattr__(self, n, v): note(("setattr", n, v)); self._d[n] = v
    def __getitem__(self, i): note(("getitem", i)); return self._d[i]
    def __setitem__(self, i, v): note(("setitem", i, v)); self._d[i] = v
    def __repr__(self): return f"Traced({self._d})"

def p_aug_member(o, k):
    o.v += note(5)
    o[note(3)] += note(7)
    o[k] += (k := note(100))
    o = (o, o.v)[0]
    return o._d, k

def p_slice(xs):
    xs[note(1):] = [note(9)]
    xs[(a := note(0)):1] = [note(7), a]
    return xs

def p_match(p):
    match p:
        case [a, *rest] if note(("guard", a)):
            return note(("seq", a, rest))
        case {"k": v, **others}:
            return note(("map", v, others))
        case str() as s:
            return note(("str", s))
        case (x, y) | [x, y, _]:
            return x + y
    return note("none")

def p_closure_factory(k):
    n = 0
    def inner(a):
        nonlocal n
        n = n + a + k
        return n
    return inner

def p_closure_defaults_factory(k):
    def inner(x, y=2, *rest, bias=7, tag="t"):
        z = x + k + y + bias
        return z, tag, rest
    return inner

def p_defaults(a, b=[], *rest, c=3, **kw):
    b.append(a)
    return a, list(b), rest, c, sorted(kw)

def p_nested(a):
    def g(x):
        y = x + 1
        return y
    class A:
        v = 5
        def m(self): return self.v + a
    k = lambda t: t * 2
    r = [g(i) for i in range(a) if i % 2 == 0]
    s = {i: k(i) for i in range(2)}
    return g(a), A().m(), k(a), r, s

def p_try(a):
    out = []
    try:
        note("body")
        if a == 0:
            raise ValueError("zero")
        out.append(10 // a)
    except ValueError as e:
        out.append(str(e))
        inside = 1
        out.append(inside)
    except ZeroDivisionError:
        out.append("zde")
    else:
        out.append("else")
    finally:
        note("finally")
    return out

def p_raise(a):
    note("before")
    x = 1 / a
    note("after")
    return x

def p_with(a):
    with CM(a) as w, CM(a + 1) as (v):
        note(("in", w, v))
    return w + v

def p_loops(n):
    out = []
    i = 0
    while True:
        i += 1
        if i % 2:
            continue
        if i > n:
            break
        out.append(i)
    for j in range(3):
        if j == 5:
            break
    else:
        out.append("else")
    for a, *b in [(1, 2, 3), (4,)]:
        out.append((a, b))
    return out

def p_gen(n):
    got = []
    for i in range(n):
        r = yield note(i)
        got.append(r)
    return got

def p_gen_sub():
    try:
        r = yield note("sub1")
        r2 = yield note(("sub2", r))
    except KeyError:
        note("sub-caught")
        r2 = yield note("sub-after-catch")
    finally:
        note("sub-finally")
    return ("sub-result", r2)

def p_gen_delegating(n):
    a = yield note("before")
    res = yield from p_gen_sub()
    for i in range(n):
        try:
            a = yield note((i, a, res))
        except ValueError:
            note("caught")
            a = "thrown"
    both = [(yield note("x")), (yield note("y"))]
    return a, res, both

def p_rec(n):
    if n <= 1:
        return 1
    return n * p_rec(n - 1)

def p_global(a):
    global G
    G = G + a
    return G

def p_import(a):
    import os.path
    from math import floor as fl
    import json as js
    return os.sep, fl(a + 0.5), js.dumps([a])

def p_walrus(xs):
    out = [y for x in xs if (y := x * 2) > 2]
    if (m := len(out)) > 0:
        return m, y
    return m

def p_misc(a):
    """docstring"""
    assert a is not None, "none"
    b: int = a
    t = f"{a}-{b!r}"
    del b
    return t

def p_fallthrough(d):
    d["seen"] = True

def p_finally_return():
    try:
        return note(1)
    finally:
        note(2)

class K:
    def __init__(self): self.s = 0
    def __repr__(self): return f"K({self.s})"
    def meth(self, v):
        w = v * 2
        self.s += w
        return self.s
    def text(self, v):
        t = """line one
        line two, indented like the method body"""
        u = v
        return t, u
'''


class Obj:
    def __init__(self):
        self.v = 0

    def __eq__(self, o):
        return isinstance(o, Obj) and self.__dict__ == o.__dict__

    def __repr__(self):
        return f"Obj({self.__dict__})"


def _cases(mod):
    return [
        ("p_assign", mod.p_assign, lambda: (3,), None),
        ("p_unpack", mod.p_unpack, lambda: ([2, 3],), None),
        ("p_unpack_error", mod.p_unpack_error, lambda: ((1, 2, 3),), None),
        ("p_aug", mod.p_aug, lambda: ([0], 3), None),
        ("p_attr_item", mod.p_attr_item, lambda: (Obj(), {}), None),
        ("p_aug_member", mod.p_aug_member, lambda: (mod.Traced(), 3), None),
        ("p_slice", mod.p_slice, lambda: ([0, 1, 2],), None),
        ("p_match_seq", mod.p_match, lambda: ([1, 2, 3],), None),
        ("p_match_map", mod.p_match, lambda: ({"k": 1, "z": 2},), None),
        ("p_match_str", mod.p_match, lambda: ("text",), None),
        ("p_match_none", mod.p_match, lambda: (5,), None),
        ("p_closure", mod.p_closure_factory(2), lambda: (5,), None),
        ("p_closure_defaults", mod.p_closure_defaults_factory(3), lambda: (1,), None),
        ("p_closure_defaults_kw", mod.p_closure_defaults_factory(3), lambda: (1, 9), {"bias": 0}),
        ("p_defaults", mod.p_defaults, lambda: (1,), None),
        ("p_defaults2", mod.p_defaults, lambda: (1, [9], 7, 8), {"c": 4, "zz": 1}),
        ("p_nested", mod.p_nested, lambda: (4,), None),
        ("p_try0", mod.p_try, lambda: (0,), None),
        ("p_try2", mod.p_try, lambda: (2,), None),
        ("p_raise", mod.p_raise, lambda: (0,), None),
        ("p_with", mod.p_with, lambda: (3,), None),
        ("p_loops", mod.p_loops, lambda: (5,), None),
        ("p_gen", mod.p_gen, lambda: (3,), "gen"),
        ("p_gen_delegating_sends", mod.p_gen_delegating, lambda: (2,), "gen:nsssssss"),
        ("p_gen_delegating_throw_into_delegate", mod.p_gen_delegating, lambda: (2,), "gen:nnKsssVss"),
        ("p_gen_delegating_close_in_delegate", mod.p_gen_delegating, lambda: (2,), "gen:nnc"),
        ("p_gen_delegating_uncaught_throw", mod.p_gen_delegating, lambda: (2,), "gen:nnV"),
        ("p_gen_delegating_close_later", mod.p_gen_delegating, lambda: (1,), "gen:nnnnsc"),
        ("p_rec", mod.p_rec, lambda: (5,), None),
        ("p_global", mod.p_global, lambda: (2,), None),
        ("p_import", mod.p_import, lambda: (1,), None),
        ("p_walrus", mod.p_walrus, lambda: ([1, 2, 3],), None),
        ("p_walrus0", mod.p_walrus, lambda: ([],), None),
        ("p_misc", mod.p_misc, lambda: (7,), None),
        ("p_fallthrough", mod.p_fallthrough, lambda: ({},), None),
        ("p_finally_return", mod.p_finally_return, lambda: (), None),
        ("K.meth", mod.K.meth, lambda: (mod.K(), 4), None),
        ("K.text", mod.K.text, lambda: (mod.K(), 4), None),
    ]


def _run(mod, fn, mkargs, kind):
    del mod.LOG[:]
    g0 = mod.G
    args = mkargs()
    kwargs = kind if isinstance(kind, dict) else {}
    try:
        if kind == "gen":
            it = fn(*args)
            ys = [next(it)]
            try:
                ys.append(it.send("s1"))
                ys.append(it.send("s2"))
                ys.append(it.send("s3"))
            except StopIteration as e:
                ys.append(("return", e.value))
            out = ("ok", ys)
        elif isinstance(kind, str) and kind.startswith("gen:"):
            # a consumer script: n next, s send, V throw ValueError, K throw KeyError, c close
            it = fn(*args)
            ys = []
            try:
                for i, op in enumerate(kind[4:]):
                    if op == "n":
                        ys.append(next(it))
                    elif op == "s":
                        ys.append(it.send(("sent", i)))
                    elif op == "V":
                        ys.append(it.throw(ValueError("v")))
                    elif op == "K":
                        ys.append(it.throw(KeyError("k")))
                    else:
                        ys.append(("closed", it.close()))
            except StopIteration as e:
                ys.append(("return", e.value))
            except BaseException as e:  # noqa
                ys.append(("raised", type(e).__name__))
            out = ("ok", ys)
        else:
            out = ("ok", fn(*args, **kwargs))
    except BaseException as e:  # noqa
        out = (type(e).__name__, str(e)[:60])
    res = (out, list(mod.LOG), repr(args), mod.G)
    mod.G = g0
    return res


def native_checks(tier, seed):
    sys.path.insert(0, os.environ.get("PVC_REPO", "/repo"))
    from ptera import probing

    d = tempfile.mkdtemp(prefix="pvc_c01_")
    bad = []
    n = 0
    counter = [0]

    def fresh():
        """A fresh copy of the corpus module (own file): no state is shared between runs."""
        counter[0] += 1
        nm = f"pvc_c01_corpus_{counter[0]}"
        p = os.path.join(d, nm + ".py")
        open(p, "w").write(CORPUS)
        spec = importlib.util.spec_from_file_location(nm, p)
        mod = importlib.util.module_from_spec(spec)
        sys.modules[nm] = mod
        spec.loader.exec_module(mod)
        return mod

    try:
        ncases = len(_cases(fresh()))
        for ci in range(ncases):
            m0 = fresh()
            name, fn, mkargs, kind = _cases(m0)[ci]
            plain = _run(m0, fn, mkargs, kind)
            plain2 = _run(m0, fn, mkargs, kind)  # second call on the same state (what 'after deactivation' is compared with)
            names = [v for v in fn.__code__.co_varnames][:4 if tier == "quick" else 12]
            configs = ["$v"] + names + (["#value", "#enter"] if tier != "quick" else ["#value"]) + ["@tooled"]
            for cfg in configs:
                m1 = fresh()
                _, fn1, mkargs1, kind1 = _cases(m1)[ci]
                n += 1
                if cfg == "@tooled":
                    # the tooling decorator returns a REBUILT function object (name, defaults, closure re-created by transform())
                    from ptera import tooled

                    try:
                        tf = tooled(fn1)
                        probed = _run(m1, tf, mkargs1, kind1)
                    except BaseException as e:  # noqa
                        probed = (("tooling:" + type(e).__name__, str(e)[:80]), [], "", m1.G)
                    if name != "p_rec" and probed != plain:
                        bad.append((name, cfg, plain, probed))
                    continue
                try:
                    with probing(f"target > {cfg}", env={"target": fn1}) as prb:
                        prb.subscribe(lambda data: None)
                        probed = _run(m1, fn1, mkargs1, kind1)
                except BaseException as e:  # noqa
                    probed = (("activation:" + type(e).__name__, str(e)[:80]), [], "", m1.G)
                if probed != plain:
                    bad.append((name, cfg, plain, probed))
                    continue
                after = _run(m1, fn1, mkargs1, kind1)
                if after != plain2:
                    bad.append((name, cfg + " (after deactivation)", plain2, after))
    finally:
        shutil.rmtree(d, ignore_errors=True)
        for k_ in [k_ for k_ in sys.modules if k_.startswith("pvc_c01_corpus_")]:
            sys.modules.pop(k_, None)
    viol = []
    if bad:
        nm, cfg, a, b = bad[0]
        script = ("import sys\nsys.path.insert(0, '/verif')\nfrom contracts import c01_native\nr = c01_native.native_checks('quick', 0)\n"
                  "print(r['summary'])\nsys.exit(1 if r['violations'] else 0)\n")
        viol.append({"name": "C01/native/plain-vs-probed", "model": {"program": nm, "probe": cfg, "plain": repr(a)[:600], "probed": repr(b)[:600], "count": len(bad)},
                     "goal": f"{len(bad)} (program, probe) pairs behave differently, e.g. {nm} under 'target > {cfg}': plain={a!r} probed={b!r}"[:900], "path": "", "script": script})
    return {"bounded": [{"unit": "native:plain-vs-probed", "bound": "27 corpus programs x {all variables, each of the first variables, #value} non-overriding probes, fixed inputs",
                         "obligations": n, "discharged": n - len(bad)}],
            "known": [], "violations": viol, "summary": {"runs": n, "differences": len(bad), "first": None if not bad else [bad[0][0], bad[0][1], repr(bad[0][2])[:300], repr(bad[0][3])[:300]]}}
