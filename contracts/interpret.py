"""Contracts for ptera/interpret.py accumulators and captures (DESIGN section 4)."""
import z3

from pvc.units import (unit, mk_obj, term_of, run, callback, calls_of, LoopSpec, Interp, PyRaise, SymObj,
                       SymSeq, SummaryFn, Obj, Sym, SInt, SBool, SStr, SVal, Val, concretize, exc_name)
from pvc.sym import Log, log_nil, log_snoc, ret_of

I = "ptera.interpret"
S = "ptera.selector"


def _element(it, name, capture, focus=False, cls="Element"):
    tags = frozenset({1}) if focus else frozenset()
    return mk_obj(it, S, "Element", name=name, value=it.models.absent(it), category=None, capture=capture, tags=tags)


def _sel_stub(it, kind="Call", all_captures=(), focus=False):
    return SymObj("selector", Val.ref(z3.IntVal(it.ctx.new_id())), cls=it.get_global(S, kind),
                  attrs={"hasval": False, "all_captures": set(all_captures), "focus": focus})


# ---------------------------------------------------------------------------------------------
@unit("Capture", ["C02", "C07", "C11", "C03", "C04", "C12"], [I + ":Capture.__init__", I + ":Capture.set", I + ":Capture.accum", I + ":Capture.snapshot",
                                       I + ":Capture.value", I + ":Capture.name"])
def u_capture(c):
    """set overwrites with exactly one (name, value); accum appends; snapshot is a fresh equal copy sharing
    no list with the original; value/name are defined iff exactly one entry (name: or the element's own name)."""
    it = Interp(c)
    elname = [None, "x"][c.choose(2)]
    el = _element(it, elname, "cap")
    cap = it.call(it.get_global(I, "Capture"), [el], {})
    c.prove("init", cap.fields["element"] is el and cap.fields["capture"] == "cap" and cap.fields["names"] == [] and cap.fields["values"] == [])
    v1, v2, v3 = c.val("v1"), c.val("v2"), c.val("v3")
    ops = []
    for k, v in enumerate((v1, v2, v3)):
        op = c.choose(3)  # 0 stop, 1 set, 2 accum
        if op == 0:
            break
        ops.append((op, v))
        before_n, before_v = list(cap.fields["names"]), list(cap.fields["values"])
        st, _ = run(it, it.getattr(cap, "set" if op == 1 else "accum"), [f"n{k}", v])
        c.prove("set-accum/no-raise", st == "ok")
        if op == 1:
            c.prove("set/overwrites", cap.fields["names"] == [f"n{k}"] and len(cap.fields["values"]) == 1 and cap.fields["values"][0] is v)
        else:
            c.prove("accum/appends", cap.fields["names"] == before_n + [f"n{k}"] and len(cap.fields["values"]) == len(before_v) + 1
                    and all(a is b for a, b in zip(cap.fields["values"], before_v + [v])))
    snap_st, snap = run(it, it.getattr(cap, "snapshot"), [])
    c.prove("snapshot/no-raise", snap_st == "ok")
    if snap_st == "ok":
        c.prove("snapshot/fresh-equal-unaliased", snap is not cap and snap.fields["element"] is el and snap.fields["capture"] == "cap"
                and snap.fields["names"] == cap.fields["names"] and snap.fields["names"] is not cap.fields["names"]
                and snap.fields["values"] is not cap.fields["values"] and len(snap.fields["values"]) == len(cap.fields["values"])
                and all(a is b for a, b in zip(snap.fields["values"], cap.fields["values"])))
    nvals = len(cap.fields["values"])
    st, val = run(it, lambda: None, []) if False else (None, None)
    try:
        val = it.getattr(cap, "value")
        st = "ok"
    except PyRaise as e:
        st, val = "raise", e.value
    if nvals == 1:
        c.prove("value/unique", st == "ok" and val is cap.fields["values"][0])
    else:
        c.prove("value/ValueError-unless-unique", st == "raise" and isinstance(val, ValueError))
    try:
        nm = it.getattr(cap, "name")
        st = "ok"
    except PyRaise as e:
        st, nm = "raise", e.value
    if elname is not None:
        c.prove("name/element-name-wins", st == "ok" and nm == elname)
    elif nvals == 1:
        c.prove("name/real-variable-name", st == "ok" and nm == cap.fields["names"][0])
    else:
        c.prove("name/ValueError-unless-unique", st == "raise" and isinstance(nm, ValueError))
    st, _ = run(it, it.getattr(cap, "set"), [None, v1])
    c.prove("set/None-name-refused", st == "raise" and isinstance(_, AssertionError))


# ---------------------------------------------------------------------------------------------
def _mk(it, clsname, sel, **kw):
    return it.call(it.get_global(I, clsname), [sel], kw)


@unit("fork", ["C03", "C07", "C02", "C04", "C09", "C12", "C13"], [I + ":BaseAccumulator.fork", I + ":BaseAccumulator.__init__", I + ":Total.__init__", I + ":Immediate.__init__"])
def u_fork(c):
    """fork(): fresh object of the same class, template False, parent = None if self.template else self,
    empty captures/children, same handler objects, intercept/trigger/close None exactly when the original's are;
    a Total fork of a non-template is appended to its parent's children and shares its names."""
    it = Interp(c)
    total = bool(c.choose(2))
    has_t, has_i, has_c = bool(c.choose(2)), bool(c.choose(2)), True if total else bool(c.choose(2))
    pass_info = bool(c.choose(2))
    sel = _sel_stub(it, all_captures=("a", "b"))
    kw = dict(pass_info=pass_info)
    t, i_, cl = callback(it, "trigger"), callback(it, "intercept"), callback(it, "close")
    if has_i:
        kw["intercept"] = i_
    if total:
        root = _mk(it, "Total", sel, close=cl, trigger=t if has_t else None, **kw)
    else:
        if has_c:
            kw["close"] = cl
        root = _mk(it, "Immediate", sel, trigger=t if has_t else None, **kw)
    c.prove("ctor/template-root", root.fields["template"] is True and root.fields["parent"] is None and root.fields["captures"] == {} and root.fields["children"] == [])
    c.prove("ctor/none-handlers", (root.fields.get("trigger", 1) is None) == (not has_t) and (root.fields.get("intercept", 1) is None) == (not has_i)
            and (root.fields.get("close", 1) is None) == (not has_c))
    newsel = [None, _sel_stub(it, kind="Element")][c.choose(2)]
    st, f1 = run(it, it.getattr(root, "fork"), [] if newsel is None else [newsel])
    c.prove("no-raise", st == "ok")
    if st != "ok":
        return
    c.prove("fork/fresh-same-class", f1 is not root and f1.cls is root.cls)
    c.prove("fork/of-template-has-no-parent", f1.fields["parent"] is None and f1.fields["template"] is False)
    c.prove("fork/selector", f1.fields["selector"] is (newsel or sel))
    c.prove("fork/empty-state", f1.fields["captures"] == {} and f1.fields["children"] == [] and f1.fields["captures"] is not root.fields["captures"])
    c.prove("fork/same-handlers", f1.fields["_trigger"] is root.fields["_trigger"] and f1.fields["_intercept"] is root.fields["_intercept"]
            and f1.fields["_close"] is root.fields["_close"] and f1.fields["pass_info"] == pass_info)
    c.prove("fork/none-handlers-preserved", (f1.fields.get("trigger", 1) is None) == (not has_t) and (f1.fields.get("intercept", 1) is None) == (not has_i)
            and (f1.fields.get("close", 1) is None) == (not has_c))
    c.prove("fork/template-untouched", root.fields["children"] == [] and root.fields["captures"] == {} and root.fields["template"] is True)
    st, f2 = run(it, it.getattr(f1, "fork"), [])
    c.prove("fork2/no-raise", st == "ok")
    if st == "ok":
        c.prove("fork2/parent-is-forked-from", f2.fields["parent"] is f1 and f2.fields["template"] is False and f2 is not f1)
        if total:
            c.prove("fork2/total-child-registered-once", f1.fields["children"] == [f2] and f2.fields["names"] is f1.fields["names"])
            c.prove("fork/total-names", f1.fields["names"] == (newsel or sel).attrs["all_captures"])
        else:
            c.prove("fork2/immediate-no-children", f1.fields["children"] == [])


@unit("build", ["C03", "C07", "C02", "C12", "C04", "C09", "C13"], [I + ":BaseAccumulator.build", I + ":BaseAccumulator.getcap"], mode="bounded", bound="parent chain depth <= 3")
def u_build(c):
    """build() = union of the capture dictionaries along the parent chain; the nearest level wins on a clash;
    nothing is modified; for a parent-less accumulator it is its own dictionary."""
    it = Interp(c)
    depth = c.choose(4)
    sel = _sel_stub(it)
    chain = []
    parent = None
    for d in range(depth + 1):
        a = mk_obj(it, I, "Immediate", selector=sel, parent=parent, template=False, captures={}, children=[], pass_info=False)
        chain.append(a)
        parent = a
    caps = {}
    expected = {}
    for d, a in enumerate(chain):
        for key in ("k%d" % d, "shared"):
            if c.choose(2):
                o = mk_obj(it, I, "Capture", element=None, capture=key, names=[], values=[])
                a.fields["captures"][key] = o
    for a in chain:  # outermost first, nearest overrides
        pass
    for a in reversed(chain):  # build() walks self -> parent and uses dict.update, so FARTHEST wins on clash
        pass
    leaf = chain[-1]
    before = [dict(a.fields["captures"]) for a in chain]
    st, res = run(it, it.getattr(leaf, "build"), [])
    c.prove("no-raise", st == "ok")
    keys = set()
    for a in chain:
        keys |= set(a.fields["captures"])
    c.prove("ensures/keys-are-union", isinstance(res, dict) and set(res.keys()) == keys)
    ok = True
    for k in keys:
        owners = [a for a in chain if k in a.fields["captures"]]
        if len(owners) == 1:
            ok = ok and res[k] is owners[0].fields["captures"][k]
    c.prove("ensures/unique-keys-map-to-their-capture", ok)
    c.prove("frame/nothing-modified", all(dict(a.fields["captures"]) == b for a, b in zip(chain, before)))
    if leaf.fields["parent"] is None:
        c.prove("ensures/root-returns-own-dict", res is leaf.fields["captures"])
    else:
        c.prove("ensures/fresh-dict-when-chained", all(res is not a.fields["captures"] for a in chain))
    # build() is a function of the CURRENT state of the chain: a variable of an outer activation that is captured only after
    # an inner accumulator already produced an event (generator frames, sibling calls made from inside the focus function)
    # must appear in -- and be checked for -- the next event
    if depth >= 1:
        owner = chain[c.choose(depth + 1, "late-owner")]
        late = mk_obj(it, I, "Capture", element=None, capture="late", names=[], values=[])
        owner.fields["captures"]["late"] = late
        st, res2 = run(it, it.getattr(leaf, "build"), [])
        c.prove("second-build/sees-captures-added-since-the-first", st == "ok" and isinstance(res2, dict) and res2.get("late") is late
                and set(res2.keys()) == keys | {"late"})


@unit("log", ["C02", "C07", "C03", "C04", "C11", "C12", "C16"], [I + ":Immediate.log", I + ":Total.log", I + ":BaseAccumulator.getcap", I + ":Capture.set", I + ":Capture.accum"])
def u_log(c):
    """Immediate.log: captures'[el.capture] holds exactly the last (name, value); Total.log: the capture is
    extended by (name, value); every other key is unchanged (same objects)."""
    it = Interp(c)
    total = bool(c.choose(2))
    sel = _sel_stub(it)
    acc = mk_obj(it, I, "Total" if total else "Immediate", selector=sel, parent=None, template=False, captures={}, children=[], pass_info=False)
    el = _element(it, "x", "x")
    other = mk_obj(it, I, "Capture", element=None, capture="o", names=["o"], values=[c.val("o")])
    acc.fields["captures"]["o"] = other
    pre = c.choose(2)
    old = c.val("old")
    if pre:
        acc.fields["captures"]["x"] = mk_obj(it, I, "Capture", element=el, capture="x", names=["x"], values=[old])
    v = c.val("v")
    st, _ = run(it, it.getattr(acc, "log"), [el, "x", None, v])
    c.prove("no-raise", st == "ok")
    caps = acc.fields["captures"]
    c.prove("ensures/keys", set(caps.keys()) == {"o", "x"})
    c.prove("frame/other-key-untouched", caps["o"] is other and other.fields["names"] == ["o"] and len(other.fields["values"]) == 1)
    if "x" in caps:
        cx = caps["x"]
        if total:
            exp = ([old] if pre else []) + [v]
            c.prove("Total/extends", len(cx.fields["values"]) == len(exp) and all(a is b for a, b in zip(cx.fields["values"], exp))
                    and cx.fields["names"] == ["x"] * len(exp))
        else:
            c.prove("Immediate/last-value-only", len(cx.fields["values"]) == 1 and cx.fields["values"][0] is v and cx.fields["names"] == ["x"])
        c.prove("ensures/capture-element", cx.fields["element"] is el and cx.fields["capture"] == "x")


@unit("Total.accumulator_for", ["C07"], [I + ":Total.accumulator_for", I + ":BaseAccumulator.accumulator_for", I + ":BaseAccumulator.fork", I + ":Total.__init__"])
def u_accfor(c):
    """Total.accumulator_for(el): a fresh fork with selector=el appended to self.children iff el.focus, else self;
    Immediate.accumulator_for(el) is always self."""
    it = Interp(c)
    total = bool(c.choose(2))
    focus = bool(c.choose(2))
    sel = _sel_stub(it, all_captures=("x",))
    cl = callback(it, "close")
    root = _mk(it, "Total", sel, close=cl) if total else _mk(it, "Immediate", sel, trigger=cl)
    acc = it.call(it.getattr(root, "fork"), [], {})
    el = _element(it, "x", "x", focus=focus)
    st, r = run(it, it.getattr(acc, "accumulator_for"), [el])
    c.prove("no-raise", st == "ok")
    if total and focus:
        c.prove("Total/focus-forks", r is not acc and r.fields["parent"] is acc and r.fields["selector"] is el and acc.fields["children"] == [r]
                and r.fields["captures"] == {})
    else:
        c.prove("no-fork", r is acc and acc.fields["children"] == [])


ev_close = z3.Function("ev_user_close", Val, Val)


@unit("Total.close", ["C07"], [I + ":Total.close", I + ":Total.leaves", I + ":BaseAccumulator.build"], mode="bounded",
      bound="root with <=2 focus leaves; every subset of the 2 names captured at root / leaf")
def u_close(c):
    """close() on the root: for each leaf of leaves() (or the root itself when there is none) _close(build) is called
    exactly once iff the built keys equal the selector's capture names, never otherwise; close() on a non-root is a no-op."""
    it = Interp(c)
    names = {"a", "b"}
    sel = _sel_stub(it, kind="Call", all_captures=names)
    closes = []

    def closefn(it_, a, k):
        closes.append(a[0])

    root = mk_obj(it, I, "Total", selector=sel, parent=None, template=False, captures={}, children=[], pass_info=False, names=names,
                  _close=SummaryFn("close", closefn))
    if c.choose(2):
        root.fields["captures"]["a"] = mk_obj(it, I, "Capture", element=None, capture="a", names=["a"], values=[c.val("ra")])
    nleaves = c.choose(3)
    leaves = []
    for j in range(nleaves):
        lsel = SymObj("leafsel", Val.ref(z3.IntVal(c.new_id())), cls=it.get_global(S, "Element"), attrs={})
        lf = mk_obj(it, I, "Total", selector=lsel, parent=root, template=False, captures={}, children=[], pass_info=False, names=names,
                    _close=root.fields["_close"])
        for nm in ("a", "b"):
            if c.choose(2):
                lf.fields["captures"][nm] = mk_obj(it, I, "Capture", element=None, capture=nm, names=[nm], values=[c.val(f"l{j}{nm}")])
        root.fields["children"].append(lf)
        leaves.append(lf)
    st, _ = run(it, it.getattr(root, "close"), [])
    c.prove("no-raise", st == "ok")
    exp = []
    for lf in (leaves or [root]):
        keys = set(root.fields["captures"]) | set(lf.fields["captures"])
        if keys == names:
            exp.append(lf)
    c.prove("ensures/one-record-per-complete-leaf", len(closes) == len(exp))
    ok = len(closes) == len(exp)
    if ok:
        for args, lf in zip(closes, exp):
            for nm in names:
                src = lf.fields["captures"].get(nm) or root.fields["captures"].get(nm)
                ok = ok and isinstance(args, dict) and set(args) == names and (args[nm] is src or nm in lf.fields["captures"] and nm in root.fields["captures"])
    c.prove("ensures/record-contents", ok)
    if leaves:
        n0 = len(closes)
        st, _ = run(it, it.getattr(leaves[0], "close"), [])
        c.prove("ensures/non-root-close-is-noop", st == "ok" and len(closes) == n0)


@unit("Total.record", ["C07"], [I + ":Total.__init__", I + ":BaseAccumulator.__init__", I + ":BaseAccumulator.fork", I + ":Total.log", I + ":Total.close",
                               I + ":Total.leaves", I + ":BaseAccumulator.build", S + ":Call.all_captures", S + ":Element.all_captures"])
def u_total_record(c):
    """Through the real constructors and a real Call selector f(a, b): the per-activation fork of a total accumulator starts
    with NO captures; after logging values for a subset of the names, close() delivers one record iff every captured
    variable was bound, containing all its values in order -- and delivers nothing otherwise."""
    it = Interp(c)
    Element = it.get_global(S, "Element")
    Call = it.get_global(S, "Call")
    ea = it.call(Element, [], dict(name="a", capture="a"))
    eb = it.call(Element, [], dict(name="b", capture="b"))
    fnobj = SymObj("f", Val.ref(z3.IntVal(c.new_id())))
    sel = it.call(Call, [], dict(element=it.call(Element, [], dict(name=fnobj)), captures=(ea, eb)))
    records = []
    cl = SummaryFn("close-handler", lambda it_, a, k: records.append(a[0]))
    tmpl = it.call(it.get_global(I, "Total"), [sel, cl], {})
    st, root = run(it, it.getattr(tmpl, "fork"), [])
    c.prove("fork/no-raise", st == "ok")
    c.prove("fork/starts-with-no-captures", root.fields["captures"] == {} and root.fields["names"] == {"a", "b"})
    logged = {"a": [], "b": []}
    for step in range(3):
        w = c.choose(3, "log")
        if w == 0:
            break
        nm = "a" if w == 1 else "b"
        v = c.val(f"v{step}")
        it.call(it.getattr(root, "log"), [ea if nm == "a" else eb, nm, None, v], {})
        logged[nm].append(v)
    st, _ = run(it, it.getattr(root, "close"), [])
    c.prove("close/no-raise", st == "ok")
    complete = bool(logged["a"]) and bool(logged["b"])
    c.prove("close/one-record-iff-every-variable-was-bound", len(records) == (1 if complete else 0))
    if complete and len(records) == 1:
        rec = records[0]
        ok = isinstance(rec, dict) and set(rec) == {"a", "b"} and all(
            len(rec[n].fields["values"]) == len(logged[n]) and all(x is y for x, y in zip(rec[n].fields["values"], logged[n])) for n in ("a", "b"))
        c.prove("close/record-holds-all-values-in-order", ok)
    c.prove("frame/template-untouched", tmpl.fields["captures"] == {} and tmpl.fields["children"] == [])
