"""C12 -- value conditions filter exactly by the stated predicate.

Functions under contract: ptera.tools Range.__init__/__call__, every, between, lt, gt, lte, gte,
throttle.__init__/__call__; ptera.selector Selector.check_captures; ptera.interpret
BaseAccumulator.__check (wrapper), trigger, intercept, _call_with_snapshot, build, Capture.snapshot.
"""
import z3

from pvc.units import (unit, opt_int, mk_obj, term_of, run, callback, calls_of, LoopSpec, Interp, PyRaise, SymObj,
                       SymSeq, SummaryFn, Obj, Sym, SInt, SBool, SStr, SVal, Val, concretize)
from pvc.sym import floor_div, floor_mod, log_nil, log_snoc, ret_of

T = "ptera.tools"


def _int_model(model, name):
    if model.get(name + "?none") == "True":
        return None
    return int(model[name])


def _range_spec(start, end, mod, value):
    x = value - (start if start is not None else 0)
    return z3.And(True if start is None else start <= value,
                  True if end is None else value < end,
                  True if mod is None else x == mod * floor_div(x, mod))


def _replay_range(ctor):
    def replay(o):
        m = o["model"] or {}
        try:
            start, end, mod, value = (_int_model(m, "start"), _int_model(m, "end"), _int_model(m, "modulo"), int(m["value"]))
        except Exception:
            return None
        return f'''
import sys
sys.path.insert(0, __import__("os").environ.get("PVC_REPO", "/repo"))
from ptera.tools import Range, every, between
start, end, modulo, value = {start!r}, {end!r}, {mod!r}, {value!r}
pred = {ctor}
def spec(v):
    if start is not None and not (start <= v): return False
    if end is not None and not (v < end): return False
    if modulo is not None:
        x = v - (start or 0)
        return any(x == modulo * k for k in range(-abs(x) - 1, abs(x) + 2))
    return True
try:
    got = pred(value)
except ZeroDivisionError:
    got = "ZeroDivisionError"
want = "ZeroDivisionError" if modulo == 0 and (start is None or value >= start) and (end is None or value < end) else spec(value)
print("got", got, "want", want)
sys.exit(1 if got != want else 0)
'''
    return replay


def _range_harness(make):
    def harness(c):
        it = Interp(c)
        start, end, mod = opt_int(c, "start"), opt_int(c, "end"), opt_int(c, "modulo")
        value = c.int("value")
        r = make(it, start, end, mod)
        c.prove("constructs-Range", isinstance(r, Obj) and r.cls.name == "Range")
        c.prove("fields", r.fields.get("start") is start and r.fields.get("end") is end and r.fields.get("modulo") is mod)
        st, res = run(it, r, [value])
        in_window = z3.And(True if start is None else start.t <= value.t, True if end is None else value.t < end.t)
        if st == "raise":
            c.cover("raise")
            # stated, not hidden in requires: modulo 0 raises ZeroDivisionError exactly inside the window
            c.prove("raises/only-ZeroDivisionError", isinstance(res, ZeroDivisionError))
            c.prove("raises/iff-modulo-zero-in-window", z3.And(mod.t == 0, in_window) if mod is not None else False)
            return
        c.cover("return")
        spec = _range_spec(None if start is None else start.t, None if end is None else end.t,
                           None if mod is None else mod.t, value.t)
        c.prove("ensures/result==spec", term_of(it, res) == spec)
        c.prove("ensures/result-is-bool", isinstance(res, bool) or (isinstance(res, Sym) and res.kind == "bool"))
        if not isinstance(res, bool):
            c.refute("twin/result==not-spec-must-fail", term_of(it, res) == z3.Not(spec))

    return harness


@unit("Range.__call__", ["C12"], [T + ":Range.__init__", T + ":Range.__call__"], replay=_replay_range("Range(start, end, modulo)"))
def u_range(c):
    """Range(start,end,modulo)(v)  <=>  start<=v<end and (v-start) divisible by modulo; None drops a clause."""
    _range_harness(lambda it, s, e, m: it.call(it.get_global(T, "Range"), [], dict(start=s, end=e, modulo=m)))(c)


@unit("every", ["C12"], [T + ":every", T + ":Range.__init__", T + ":Range.__call__"], replay=_replay_range("every(modulo, start, end)"))
def u_every(c):
    """every(n, start, end)(v) <=> start <= v < end and v-start divisible by n (argument order of the public API)."""
    _range_harness(lambda it, s, e, m: it.call(it.get_global(T, "every"), [m, s, e], {}))(c)


@unit("every-defaults", ["C12"], [T + ":every"])
def u_every_defaults(c):
    """every() has start=0, end=None, modulo=None; every(n) has start 0."""
    it = Interp(c)
    r = it.call(it.get_global(T, "every"), [], {})
    c.prove("defaults", r.fields["start"] == 0 and r.fields["end"] is None and r.fields["modulo"] is None)
    n = c.int("n")
    v = c.int("v")
    r = it.call(it.get_global(T, "every"), [n], {})
    st, res = run(it, r, [v])
    if st == "ok":
        c.prove("every(n)", term_of(it, res) == z3.And(v.t >= 0, v.t == n.t * floor_div(v.t, n.t)))
    else:
        c.prove("every(0)-raises", z3.And(n.t == 0, v.t >= 0))


@unit("between", ["C12"], [T + ":between", T + ":Range.__call__"], replay=_replay_range("between(start, end, modulo)"))
def u_between(c):
    """between(a, b)(v) <=> a <= v < b (optionally with a modulus)."""
    _range_harness(lambda it, s, e, m: it.call(it.get_global(T, "between"), [s, e], {} if m is None else dict(modulo=m)))(c)


def _cmp_unit(name, rel, pyop):
    def replay(o):
        m = o["model"] or {}
        return f'''
import sys
sys.path.insert(0, __import__("os").environ.get("PVC_REPO", "/repo"))
from ptera.tools import {name}
a, x = {int(m.get("a", 0))}, {int(m.get("x", 0))}
got, want = {name}(a)(x), (x {pyop} a)
print("got", got, "want", want)
sys.exit(1 if got != want else 0)
'''

    @unit(name, ["C12"], [T + ":" + name], replay=replay)
    def u(c):
        it = Interp(c)
        a, x = c.int("a"), c.int("x")
        f = it.call(it.get_global(T, name), [a], {})
        st, res = run(it, f, [x])
        c.prove("no-raise", st == "ok")
        c.prove("ensures/result==spec", term_of(it, res) == rel(x.t, a.t))

    u.__doc__ = f"{name}(a)(x) <=> x {pyop} a for all integers"
    return u


_cmp_unit("lt", lambda x, a: x < a, "<")
_cmp_unit("gt", lambda x, a: x > a, ">")
_cmp_unit("lte", lambda x, a: x <= a, "<=")
_cmp_unit("gte", lambda x, a: x >= a, ">=")


@unit("throttle", ["C12"], [T + ":throttle.__init__", T + ":throttle.__call__"])
def u_throttle(c):
    """Stateful rate predicate (spec derived from the code; the property only names it): first value
    accepted; afterwards accepted iff equal to the last accepted or >= threshold; threshold advances by period."""
    it = Interp(c)
    period = c.int("period")
    th = it.call(it.get_global(T, "throttle"), [period], {})
    c.prove("init", th.fields["current"] is None and th.fields["trigger"] is None and th.fields["period"] is period)
    v1 = c.int("v1")
    st, r1 = run(it, th, [v1])
    c.prove("first/accepted", st == "ok" and r1 is True)
    c.prove("first/state", z3.And(th.fields["current"].t == v1.t, it._arith(th.fields["trigger"]) == v1.t + period.t))
    cur, trg = th.fields["current"], th.fields["trigger"]
    v2 = c.int("v2")
    st, r2 = run(it, th, [v2])
    c.prove("second/no-raise", st == "ok")
    acc = z3.Or(v2.t == v1.t, v2.t >= v1.t + period.t)
    c.prove("second/result", term_of(it, r2) == acc)
    newcur = z3.If(z3.And(v2.t != v1.t, v2.t >= v1.t + period.t), v2.t, v1.t)
    newtrg = z3.If(z3.And(v2.t != v1.t, v2.t >= v1.t + period.t), v1.t + 2 * period.t, v1.t + period.t)
    c.prove("second/state", z3.And(it._arith(th.fields["current"]) == newcur, it._arith(th.fields["trigger"]) == newtrg))


# ---------------------------------------------------------------------------------------------
# Selector.check_captures
# ---------------------------------------------------------------------------------------------
S = "ptera.selector"
CC_TARGET = S + ":Selector.check_captures"

# spec functions (uninterpreted shapes of the inputs)
cap_of = z3.Function("cc_cap", z3.IntSort(), Val)              # capture key of the i-th valued element
val_of = z3.Function("cc_val", z3.IntSort(), Val)              # its value constraint (when not a MatchFunction)
is_mf = z3.Function("cc_is_mf", z3.IntSort(), z3.BoolSort())   # the constraint is a MatchFunction
mf_id = z3.Function("cc_mf", z3.IntSort(), Val)                # identity of the wrapped predicate
has = z3.Function("cc_has", Val, z3.BoolSort())                # key present in the captures dict
nvals = z3.Function("cc_nvals", Val, z3.IntSort())             # number of values stored for a key
vals = z3.Function("cc_vals", Val, z3.IntSort(), Val)          # the j-th value
mf_app = z3.Function("cc_mf_app", Val, Val, Val)               # result of a (pure) match function
mf_oid = z3.Function("cc_mf_oid", z3.IntSort(), z3.IntSort())  # identity of the MatchFunction wrapper object


def _constraint(it, i, x):
    """Meaning of one constraint, from the property: equality, or the predicate holds."""
    eqt = it._val_eq(val_of(i), x)
    return z3.If(is_mf(i), it.truth_term(SVal(mf_app(mf_id(i), x))), eqt)  # a constraint is an equality OR a predicate


def _replay_cc(o):
    import os
    return open(os.path.join(os.path.dirname(os.path.dirname(os.path.abspath(__file__))), "replay", "c12_check_captures.py")).read()


def _cc_shape(it, n):
    c = it.ctx

    def elem(i):
        if c.decide(is_mf(i)):
            fn = SummaryFn("matchfn", lambda it_, a, k: SVal(mf_app(mf_id(i), it_.to_val(a[0]))))
            v = SymObj("matchfunction", Val.ref(mf_oid(i)), attrs={"fn": fn}, cls=it.get_global(S, "MatchFunction"))
        else:
            v = SVal(val_of(i))
            c.assume(z3.Not(Val.is_ref(val_of(i))))  # a non-MatchFunction constraint is a user value
        return mk_obj(it, S, "Element", name=None, value=v, category=None, capture=SVal(cap_of(i)), tags=frozenset())

    all_values = SymSeq("all_values", n, elem)
    sel = mk_obj(it, S, "Call", all_values=all_values)

    def cap_obj(key):
        kt = it.to_val(key)
        c.assume(nvals(kt) >= 0)
        return mk_obj(it, "ptera.interpret", "Capture", values=SymSeq("values", nvals(kt), lambda j: SVal(vals(kt, j))))

    captures = SymObj("captures", Val.ref(z3.IntVal(c.new_id())), attrs={
        "__contains__": SummaryFn("captures.__contains__", lambda it_, a, k: concretize(SBool(has(it_.to_val(a[0]))))),
        "__getitem__": SummaryFn("captures.__getitem__", lambda it_, a, k: cap_obj(a[0])),
    })
    return sel, captures


def _cc_spec(it, n):
    i, j = z3.Ints("qi qj")
    return z3.ForAll([i], z3.Implies(z3.And(0 <= i, i < n, has(cap_of(i))),
                                     z3.ForAll([j], z3.Implies(z3.And(0 <= j, j < nvals(cap_of(i))),
                                                               _constraint(it, i, vals(cap_of(i), j))))))


def _cc_loopspecs():
    def outer_facts(it, env, i):
        k, j = z3.Ints("ok oj")
        return [z3.ForAll([k], z3.Implies(z3.And(0 <= k, k < i, has(cap_of(k))),
                                          z3.ForAll([j], z3.Implies(z3.And(0 <= j, j < nvals(cap_of(k))),
                                                                    _constraint(it, k, vals(cap_of(k), j))))))]

    def inner_facts(it, env, j):
        i = env.loop_index[0]
        q = z3.Int("ij")
        return [z3.ForAll([q], z3.Implies(z3.And(0 <= q, q < j), _constraint(it, i, vals(cap_of(i), q))))]

    return {(CC_TARGET, 0): LoopSpec(facts=outer_facts), (CC_TARGET, 1): LoopSpec(facts=inner_facts)}


@unit("check_captures", ["C12", "C13"], [CC_TARGET], replay=_replay_cc,
      assumed=["match functions are pure predicates of their argument (throttle is stateful and is specified separately)"])
def u_check_captures(c):
    """result <=> every valued element whose capture is present has ALL its captured values satisfy
    the constraint (== or predicate); elements not captured yet are skipped.  Unbounded: any number of
    constraints and of values (two nested loop invariants, early return)."""
    it = Interp(c, loopspecs=_cc_loopspecs())
    n = z3.Int("n")
    c.inputs["n"] = SInt(n)
    c.assume(n >= 0)
    sel, captures = _cc_shape(it, n)
    st, res = run(it, it.getattr(sel, "check_captures"), [captures])
    c.prove("no-raise", st == "ok")
    c.cover("return")
    c.prove("ensures/result==spec", term_of(it, res) == _cc_spec(it, n))
    if res is False:
        c.refute("twin/always-true-must-fail", _cc_spec(it, n))


def _cc_bounded(c, n_el, n_vals):
    it = Interp(c)
    els = []
    caps = {}
    names = ["a", "b", "c"]
    for i in range(n_el):
        key = names[c.choose(3, "cap")]
        if c.choose(2, "mf"):
            pid = Val.opq(z3.IntVal(900 + i))
            fn = SummaryFn("matchfn", lambda it_, a, k, pid=pid: SVal(mf_app(pid, it_.to_val(a[0]))))
            v = mk_obj(it, S, "MatchFunction", fn=fn)
            cons = lambda x, pid=pid, v=v: it.truth_term(SVal(mf_app(pid, x)))
        else:
            v = c.val(f"V{i}")
            c.assume(z3.Not(Val.is_ref(v.t)))
            cons = lambda x, v=v: it._val_eq(v.t, x)
        els.append((mk_obj(it, S, "Element", name=None, value=v, category=None, capture=key, tags=frozenset()), key, cons))
    for k, kk in enumerate(names[:2]):
        ln = c.choose(n_vals + 1 - k, "len")
        caps[kk] = mk_obj(it, "ptera.interpret", "Capture", values=[c.val(f"x{k}_{j}") for j in range(ln)])
    sel = mk_obj(it, S, "Call", all_values=[e for e, _, _ in els])
    st, res = run(it, it.getattr(sel, "check_captures"), [caps])
    c.prove("no-raise", st == "ok")
    conj = []
    for e, key, cons in els:
        if key in caps:
            for x in caps[key].fields["values"]:
                conj.append(cons(x.t))
    c.prove("ensures/result==spec", term_of(it, res) == (z3.And(*conj) if conj else z3.BoolVal(True)))


@unit("check_captures-bounded", ["C12", "C13"], [CC_TARGET], mode="bounded", bound="<=2 valued elements over 3 capture names, 2 captured keys with <=2 and <=1 values", fallback_for="check_captures", replay=_replay_cc)
def u_check_captures_bounded(c):
    """Bounded stand-in (concrete spines) used when the loop structure changes and the invariants no longer apply."""
    _cc_bounded(c, 2, 2)


# ---------------------------------------------------------------------------------------------
# BaseAccumulator.__check and its use by trigger / intercept
# ---------------------------------------------------------------------------------------------
I = "ptera.interpret"
cc_result = z3.Function("cc_result", Val, z3.BoolSort())  # contract of check_captures as seen by callers


def _selector_stub(it, hasval):
    """A selector known only through its contract: check_captures(results) is a boolean function of results."""
    c = it.ctx

    def cc(it_, a, k):
        c.__dict__.setdefault("cc_args", []).append(a[0])
        return concretize(SBool(cc_result(Val.ref(z3.IntVal(it_.models.native_id(it_, a[0]))))))

    return SymObj("selector", Val.ref(z3.IntVal(c.new_id())), attrs={
        "check_captures": SummaryFn("check_captures", cc), "hasval": hasval,
        "all_captures": set(), "focus": True})


def _mk_acc(it, hasval, check, trigger=None, intercept=None, close=None, pass_info=False):
    Imm = it.get_global(I, "Immediate")
    sel = _selector_stub(it, hasval)
    kw = dict(check=check, pass_info=pass_info)
    if intercept is not None:
        kw["intercept"] = intercept
    if close is not None:
        kw["close"] = close
    return it.call(Imm, [sel], dict(trigger=trigger, **kw)), sel


@unit("BaseAccumulator.__check", ["C12"], [I + ":BaseAccumulator.__check", I + ":BaseAccumulator.__init__", I + ":Immediate.__init__"],
      inlined=[I + ":BaseAccumulator.__init__"])
def u_check_wrapper(c):
    """The handler passed by the user is wrapped iff (handler and check and selector.hasval); the wrapper
    returns handler(results[, acc, el]) when selector.check_captures(results) holds and ABSENT otherwise,
    calling the handler exactly once / not at all."""
    it = Interp(c)
    hasval = c.decide(c.bool("hasval").t)
    check = c.decide(c.bool("check").t)
    pass_info = c.decide(c.bool("pass_info").t)
    fn = callback(it, "handler")
    acc, sel = _mk_acc(it, hasval, check, trigger=fn, pass_info=pass_info)
    wrapped = acc.fields["_trigger"]
    c.prove("wrapped-iff", (wrapped is not fn) == (hasval and check))
    c.prove("none-stays-none", acc.fields["_intercept"] is None and acc.fields["intercept"] is None and acc.fields["_close"] is None)
    results = {"k": mk_obj(it, I, "Capture", names=[], values=[], element=None, capture="k")}
    el = c.val("el")
    st, res = run(it, wrapped, [results, acc, el] if (wrapped is not fn or pass_info) else [results])
    c.prove("no-raise", st == "ok")
    n = len(calls_of(c, "handler"))
    if wrapped is fn:
        c.prove("unwrapped/called-once", n == 1)
        return
    ok = cc_result(Val.ref(z3.IntVal(it.models.native_id(it, results))))
    if n == 1:
        c.cover("passes")
        c.prove("filter/called-only-if-check-holds", ok)
        args = calls_of(c, "handler")[0][1]
        c.prove("filter/handler-gets-results", args[0] is results and (len(args) == 3) == pass_info)
        c.prove("filter/result-is-handler-result", it.to_val(res) == ret_of(c.log))
    else:
        c.cover("filtered")
        c.prove("filter/never-called-twice", n == 0)
        c.prove("filter/not-called-only-if-check-fails", z3.Not(ok))
        c.prove("filter/ABSENT", it.is_term(res, it.models.absent(it)))
    c.prove("filter/check-sees-the-results", c.__dict__.get("cc_args", [None])[0] is results)


def _filter_through(c, which):
    it = Interp(c)
    fn = callback(it, "handler")
    pass_info = c.decide(c.bool("pass_info").t)
    if which == "trigger":
        acc, sel = _mk_acc(it, True, True, trigger=fn, pass_info=pass_info)
    else:
        acc, sel = _mk_acc(it, True, True, intercept=fn, pass_info=pass_info)
    # a fork (what actually runs inside an activation) must keep the filter, exactly once
    frk = it.call(it.getattr(acc, "fork"), [], {})
    c.prove("fork/keeps-wrapper", frk.fields["_" + which] is acc.fields["_" + which])
    el = mk_obj(it, S, "Element", name="x", value=it.models.absent(it), category=None, capture="x", tags=frozenset({1}))
    prev = c.val("prev")
    el_y = mk_obj(it, S, "Element", name="y", value=it.models.absent(it), category=None, capture="y", tags=frozenset())
    frk.fields["captures"]["y"] = mk_obj(it, I, "Capture", element=el_y, capture="y", names=["y"], values=[prev])
    # a capture of an OUTER activation (it lives in the accumulator this one was forked from, and the outer function may bind the variable
    # again later): what the handler is given is a frozen copy of it too
    outer_v = c.val("outer")
    el_p = mk_obj(it, S, "Element", name="p", value=it.models.absent(it), category=None, capture="p", tags=frozenset())
    parent_cap = mk_obj(it, I, "Capture", element=el_p, capture="p", names=["p"], values=[outer_v])
    # (a fork of the user's template has no parent; the fork made for a NESTED call has the fork of the outer call as its parent)
    outer_frk = frk
    outer_frk.fields["captures"]["p"] = parent_cap
    frk = it.call(it.getattr(outer_frk, "fork"), [], {})
    c.prove("fork-of-a-fork/parent-is-the-outer-activation's-accumulator", frk.fields.get("parent") is outer_frk and frk.fields["_" + which] is acc.fields["_" + which])
    frk.fields["captures"]["y"] = outer_frk.fields["captures"].pop("y")
    if which == "trigger":
        st, res = run(it, it.getattr(frk, "trigger"), [el])
    else:
        st, res = run(it, it.getattr(frk, "intercept"), [el, "x", None, c.val("tentative")])
    c.prove("no-raise", st == "ok")
    seen = c.__dict__.get("cc_args", [])
    c.prove("check-consulted-once", len(seen) == 1)
    n = len(calls_of(c, "handler"))
    ok = cc_result(Val.ref(z3.IntVal(it.models.native_id(it, seen[0])))) if seen else z3.BoolVal(False)
    c.prove("handler-runs-iff-check", z3.And(ok, n == 1) if n else z3.And(z3.Not(ok), n == 0))
    if seen:
        snap = seen[0]
        c.prove("check-sees-snapshot-of-all-captures", isinstance(snap, dict) and set(snap.keys()) == ({"y", "p"} if which == "trigger" else {"x", "y", "p"}))
        if isinstance(snap, dict) and "p" in snap:
            c.prove("snapshot-of-an-outer-activation's-capture-is-a-copy-too", snap["p"] is not parent_cap and snap["p"].fields["values"] is not parent_cap.fields["values"]
                    and len(snap["p"].fields["values"]) == 1 and snap["p"].fields["values"][0] is outer_v, only=["C03", "C02", "C07", "C12"])
        if isinstance(snap, dict) and "y" in snap:
            c.prove("snapshot-not-aliased", snap["y"] is not frk.fields["captures"]["y"] and snap["y"].fields["values"] is not frk.fields["captures"]["y"].fields["values"])
            c.prove("snapshot-values", len(snap["y"].fields["values"]) == 1 and snap["y"].fields["values"][0] is prev)
    if which == "intercept" and seen and isinstance(seen[0], dict) and "x" in seen[0]:
        # what the override sees for the variable being bound: a capture carrying the variable's REAL name (that is what a generic
        # capture reports) and exactly the tentative value
        tx = seen[0]["x"]
        c.prove("tentative-capture-carries-the-real-name-and-the-tentative-value", list(tx.fields["names"]) == ["x"] and len(tx.fields["values"]) == 1,
                note=f"names={tx.fields['names']} values={len(tx.fields['values'])}", only=["C04"])
    if which == "intercept":
        c.prove("declined-is-ABSENT", True if n else it.is_term(res, it.models.absent(it)))
        # the tentative value (ptera's ABSENT marker for a variable that is only declared) is shown to the override and to nothing else: it
        # is not a value the variable took, so it must not stay in the accumulator, where Total.log would append to it and the close
        # event would carry it (C16 "never ... in an event", C07 "all the values it took ... and nothing else")
        c.prove("tentative-removed", "x" not in frk.fields["captures"])


@unit("trigger-filter", ["C12", "C02", "C03", "C07", "C11", "C13"], [I + ":BaseAccumulator.trigger", I + ":BaseAccumulator._call_with_snapshot", I + ":BaseAccumulator.build",
                                 I + ":BaseAccumulator.fork", I + ":Capture.snapshot", I + ":BaseAccumulator.__check"])
def u_trigger_filter(c):
    """Event delivery goes through the capture check: the trigger handler runs iff check_captures(snapshot) holds."""
    _filter_through(c, "trigger")


@unit("intercept-filter", ["C12", "C04", "C16", "C07", "C02", "C11", "C13"], [I + ":BaseAccumulator.intercept", I + ":BaseAccumulator._call_with_snapshot",
                                          I + ":BaseAccumulator.build", I + ":BaseAccumulator.fork", I + ":Capture.snapshot", I + ":Capture.set"])
def u_intercept_filter(c):
    """An override attached to a constrained selector is applied under the same condition and not otherwise."""
    _filter_through(c, "intercept")
