"""Bounded native stand-in for C14 (transform() orchestration, exec/audit-hook interplay with codefind, gc.get_referrers are
out of the engine's reach): replay/c14_history.py -- placements x histories of bounded length on the real library."""
import os
import subprocess
import sys

ROOT = os.path.dirname(os.path.dirname(os.path.abspath(__file__)))


def native_checks(tier, seed):
    n = "3" if tier == "quick" else "5"
    path = os.path.join(ROOT, "replay", "c14_history.py")
    p = subprocess.run([sys.executable, path, n], capture_output=True, text=True, timeout=1500)
    viol = []
    known = []
    for line in p.stdout.splitlines():
        if line.startswith("KNOWN-CLASS"):
            known.append({"obligation": "C14/native/reference-history/nested-active-during-enclosing-probe-cycle", "what_fails": line[:300],
                          "model": {"output": line[:300]},
                          "script": open(path).read().replace('sys.argv[1].isdigit() else 4', 'sys.argv[1].isdigit() else 3').replace('if "--known-only" in sys.argv:', 'if True:')})
    if p.returncode == 1:
        viol.append({"name": "C14/native/reference-history", "model": {"output": p.stdout[-500:]}, "goal": p.stdout[-300:], "path": "",
                     "script": open(path).read().replace('int(sys.argv[1]) if len(sys.argv) > 1 else 4', n)})
    elif p.returncode != 0:
        raise RuntimeError("c14_history crashed: " + p.stderr[-800:])
    return {"bounded": [{"unit": "native:reference-history", "bound": f"5 placements x all histories of length {n} over {{probe by name, probe by reference, deactivate, call, resolve}}",
                         "obligations": 1, "discharged": 0 if viol else 1}],
            "known": known, "violations": viol, "summary": {"output": p.stdout.strip()[-200:]}}
