"""Bounded native stand-in for C14 (transform() orchestration, exec/audit-hook interplay with codefind, gc.get_referrers are
out of the engine's reach): replay/c14_history.py -- placements x histories of bounded length on the real library."""
import os
import subprocess
import sys

ROOT = os.path.dirname(os.path.dirname(os.path.abspath(__file__)))


def native_checks(tier, seed):
    n = "3" if tier == "quick" else "4"
    path = os.path.join(ROOT, "replay", "c14_history.py")
    # one process per placement (fresh heap each: codefind scans the garbage collector's object graph), in parallel
    procs = [(pl, subprocess.Popen([sys.executable, path, n, f"--placement={pl}"], stdout=subprocess.PIPE, stderr=subprocess.PIPE, text=True))
             for pl in ("top", "A.B.m", "A.n", "inner", "wrapped")]
    outs, rcs, errs = [], [], []
    for pl, pr in procs:
        o, e = pr.communicate(timeout=1500)
        outs.append(o)
        rcs.append(pr.returncode)
        errs.append(e)

    class P:
        stdout = "".join(outs)
        stderr = "".join(errs)
        returncode = 1 if 1 in rcs else (0 if all(r == 0 for r in rcs) else 2)

    p = P
    viol = []
    known = []
    for line in p.stdout.splitlines():
        if line.startswith("KNOWN-CLASS"):
            known.append({"obligation": "C14/native/reference-history/nested-active-during-enclosing-probe-cycle", "what_fails": line[:300],
                          "model": {"output": line[:300]},
                          "script": open(path).read().replace('sys.argv[1].isdigit() else 4', 'sys.argv[1].isdigit() else 3').replace('if "--known-only" in sys.argv:', 'if True:')})
    if p.returncode == 1:
        viol.append({"name": "C14/native/reference-history", "model": {"output": p.stdout[-500:]}, "goal": p.stdout[-300:], "path": "",
                     "script": open(path).read().replace('sys.argv[1].isdigit() else 4', 'sys.argv[1].isdigit() else ' + n)})
    elif p.returncode != 0:
        raise RuntimeError("c14_history crashed: " + p.stderr[-800:])
    return {"bounded": [{"unit": "native:reference-history", "bound": f"5 placements x all histories of length {n} over {{probe by name, probe by reference, deactivate, call, resolve}}",
                         "obligations": 1, "discharged": 0 if viol else 1}],
            "known": known, "violations": viol, "summary": {"output": p.stdout.strip()[-200:]}}
