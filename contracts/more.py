"""Further functions under contract: Overlay helpers (tweak / rewrite / register / tap), Probe._emit2 / activate / deactivate /
probing / global_probe, value_evaluate actions and value evaluation, DictPile, tooled / inplace, selector validity."""
import ast

import z3

from pvc.units import (unit, mk_obj, term_of, run, callback, calls_of, LoopSpec, Interp, PyRaise, SymObj,
                       SymSeq, SummaryFn, Obj, Sym, SInt, SBool, SStr, SVal, Val, concretize, exc_name)
from pvc.values import FuncV, BoundV

O = "ptera.overlay"
I = "ptera.interpret"
S = "ptera.selector"
P = "ptera.probe"
U = "ptera.utils"
TR = "ptera.transform"
OP = "ptera.opparse"


def _real_selector(it, focus=True):
    Element = it.get_global(S, "Element")
    Call = it.get_global(S, "Call")
    fnobj = SymObj("f", Val.ref(z3.IntVal(it.ctx.new_id())))
    caps = (it.call(Element, [], dict(name="y", capture="y", tags=frozenset({1}) if focus else frozenset())),
            it.call(Element, [], dict(name="x", capture="x")))
    return it.call(Call, [], dict(element=it.call(Element, [], dict(name=fnobj)), captures=caps))


def _capdict(it, **vals):
    return {k: mk_obj(it, I, "Capture", element=None, capture=k, names=[k], values=[v]) for k, v in vals.items()}


@unit("Overlay.tweak-rewrite", ["C04", "C16", "C05", "C02"], [O + ":Overlay.tweak", O + ":Overlay.rewrite", O + ":BaseOverlay.__init__", O + ":BaseOverlay.add",
                                         O + ":BaseOverlay.fork", O + ":Overlay.tweaking", O + ":Overlay.rewriting", I + ":Immediate.__init__"])
def u_tweak_rewrite(c):
    """tweak({sel: v}) adds one Immediate per selector whose intercept ignores the captures and returns exactly v;
    rewrite({sel: fn}, full=False) adds one whose intercept calls fn once with {name: capture.value} (full=True: the Capture
    objects) and returns its result; tweaking/rewriting work on a fork (the overlay they are called on is not modified)."""
    it = Interp(c)
    Ov = it.get_global(O, "Overlay")
    sel = _real_selector(it)
    v = c.val("v")
    which = c.choose(3, "helper")
    base = it.call(Ov, [], {})
    x, y = c.val("x"), c.val("y")
    caps = _capdict(it, x=x, y=y)
    if which == 0:
        st, r = run(it, it.getattr(base, "tweak"), [{sel: v}])
        c.prove("tweak/returns-self-with-one-handler", st == "ok" and r is base and len(base.fields["handlers"]) == 1)
        h = base.fields["handlers"][0]
        c.prove("tweak/immediate-intercept-only", h.cls.name == "Immediate" and h.fields["selector"] is sel and h.fields.get("trigger", 1) is None
                and h.fields["_intercept"] is not None)
        st, out = run(it, h.fields["_intercept"], [caps])
        c.prove("tweak/intercept-returns-the-given-value", st == "ok" and out is v)
        # several selectors in ONE call: each rule hands in the value given for ITS selector
        n = 2 + c.choose(2, "entries")
        sels = [_real_selector(it) for _ in range(n)]
        vals = [c.val(f"v{i}") for i in range(n)]
        many = it.call(Ov, [], {})
        st, r = run(it, it.getattr(many, "tweak"), [dict(zip(sels, vals))])
        hs = many.fields["handlers"]
        c.prove("tweak-many/one-handler-per-selector-in-order", st == "ok" and len(hs) == n and all(hs[i].fields["selector"] is sels[i] for i in range(n)))
        for i in range(min(n, len(hs))):
            st, out = run(it, hs[i].fields["_intercept"], [caps])
            c.prove(f"tweak-many/rule{i}-returns-the-value-given-for-its-own-selector", st == "ok" and out is vals[i])
    elif which == 1:
        full = bool(c.choose(2, "full"))
        fn = callback(it, "rewriter", pure=False)
        st, r = run(it, it.getattr(base, "rewrite"), [{sel: fn}], dict(full=full))
        c.prove("rewrite/returns-self-with-one-handler", st == "ok" and r is base and len(base.fields["handlers"]) == 1)
        h = base.fields["handlers"][0]
        st, out = run(it, h.fields["_intercept"], [caps])
        calls = calls_of(c, "rewriter")
        c.prove("rewrite/function-called-once", st == "ok" and len(calls) == 1)
        if len(calls) == 1:
            arg = calls[0][1][0]
            if full:
                c.prove("rewrite/full-gets-the-captures", arg is caps)
            else:
                c.prove("rewrite/gets-the-values", isinstance(arg, dict) and set(arg) == {"x", "y"} and arg["x"] is x and arg["y"] is y)
            c.prove("rewrite/result-is-the-function's-result", it.to_val(out) == __import__("pvc.sym", fromlist=["ret_of"]).ret_of(c.log))
        # the documented default: without `full`, the function receives the VALUES
        dflt = it.call(Ov, [], {})
        got_d = []
        st, _ = run(it, it.getattr(dflt, "rewrite"), [{sel: SummaryFn("rw-default", lambda it_, a, k: got_d.append(a[0]))}])
        if st == "ok" and len(dflt.fields["handlers"]) == 1:
            run(it, dflt.fields["handlers"][0].fields["_intercept"], [caps])
        c.prove("rewrite/default-is-values-not-captures", st == "ok" and len(got_d) == 1 and isinstance(got_d[0], dict) and got_d[0] is not caps and got_d[0].get("x") is x)
        # several selectors in ONE call: each rule calls the function given for ITS selector
        sels = [_real_selector(it) for _ in range(2)]
        seen = []
        fns = [SummaryFn(f"rw{i}", (lambda i_: lambda it_, a, k: seen.append(i_))(i)) for i in range(2)]
        many = it.call(Ov, [], {})
        st, r = run(it, it.getattr(many, "rewrite"), [dict(zip(sels, fns))], dict(full=full))
        hs = many.fields["handlers"]
        c.prove("rewrite-many/one-handler-per-selector-in-order", st == "ok" and len(hs) == 2 and all(hs[i].fields["selector"] is sels[i] for i in range(2)))
        for i in range(min(2, len(hs))):
            del seen[:]
            st, out = run(it, hs[i].fields["_intercept"], [caps])
            c.prove(f"rewrite-many/rule{i}-calls-the-function-given-for-its-own-selector", st == "ok" and seen == [i])
    else:
        # fork: a NEW overlay of the same class with the same handlers, sharing no mutable state with the original -- what is added to
        # the fork (tapping / tweaking / rewriting on a long-lived overlay instance) never reaches the original, so it ends with the
        # with-block it was made for (C05: a later activation of the original starts from a clean state)
        k = c.choose(3, "handlers-before-fork")
        olds = [SymObj(f"old-handler{i}", Val.ref(z3.IntVal(c.new_id()))) for i in range(k)]
        src = it.call(Ov, list(olds), {})
        st, fk = run(it, it.getattr(src, "fork"), [])
        ok = st == "ok" and isinstance(fk, Obj) and fk is not src and fk.cls is Ov
        c.prove("fork/new-overlay-of-the-same-class-with-the-same-handlers", ok and len(fk.fields["handlers"]) == k and all(a is b for a, b in zip(fk.fields["handlers"], olds)))
        c.prove("fork/handler-list-not-shared-with-the-original", ok and fk.fields["handlers"] is not src.fields["handlers"])
        if ok:
            extra = SymObj("added-to-the-fork", Val.ref(z3.IntVal(c.new_id())))
            st, _ = run(it, it.getattr(fk, "add"), [extra])
            c.prove("fork/adding-to-the-fork-leaves-the-original-as-it-was", st == "ok" and len(src.fields["handlers"]) == k and all(a is b for a, b in zip(src.fields["handlers"], olds))
                    and len(fk.fields["handlers"]) == k + 1)
        st, r = run(it, it.getattr(base, "tweaking"), [{sel: v}])
        c.prove("tweaking/new-overlay-original-untouched", st == "ok" and r is not base and base.fields["handlers"] == [] and len(r.fields["handlers"]) == 1)
        st, r2 = run(it, it.getattr(Ov, "tweaking"), [{sel: v}])
        c.prove("tweaking/callable-on-the-class", st == "ok" and isinstance(r2, Obj) and r2.cls is Ov and len(r2.fields["handlers"]) == 1)
        full = bool(c.choose(2, "full"))
        fn = callback(it, "rewriter2", pure=False)
        st, r3 = run(it, it.getattr(base, "rewriting"), [{sel: fn}], dict(full=full))
        c.prove("rewriting/new-overlay-original-untouched", st == "ok" and r3 is not base and base.fields["handlers"] == [] and len(r3.fields["handlers"]) == 1)
        if st == "ok" and len(r3.fields["handlers"]) == 1:
            st, out = run(it, r3.fields["handlers"][0].fields["_intercept"], [caps])
            calls = calls_of(c, "rewriter2")
            c.prove("rewriting/full-flag-forwarded", st == "ok" and len(calls) == 1 and ((calls[0][1][0] is caps) if full else isinstance(calls[0][1][0], dict)))


@unit("Overlay.register", ["C02", "C07"], [O + ":Overlay.register", O + ":Overlay.on", O + ":Overlay.tap"])
def u_overlay_register(c):
    """register(sel, fn, full, all, immediate): one Immediate (or Total) whose handler calls fn once with the values
    ({name: value}), the value lists (all=True) or the Capture objects (full=True); tap appends to the given list."""
    it = Interp(c)
    Ov = it.get_global(O, "Overlay")
    sel = _real_selector(it)
    base = it.call(Ov, [], {})
    mode = c.choose(3, "payload")  # 0 values, 1 all, 2 full
    immediate = bool(c.choose(2, "immediate"))
    got = []
    fn = SummaryFn("user-fn", lambda it_, a, k: got.append(a[0]))
    kw = dict(immediate=immediate)
    if mode == 1:
        kw["all"] = True
    if mode == 2:
        kw["full"] = True
    st, _ = run(it, it.getattr(base, "register"), [sel, fn], kw)
    c.prove("register/no-raise", st == "ok" and len(base.fields["handlers"]) == 1)
    h = base.fields["handlers"][0]
    c.prove("register/kind", h.cls.name == ("Immediate" if immediate else "Total") and h.fields["selector"] is sel)
    x, y = c.val("x"), c.val("y")
    caps = _capdict(it, x=x, y=y)
    handler = h.fields["_trigger"] if immediate else h.fields["_close"]
    st, _ = run(it, handler, [caps])
    c.prove("handler/calls-fn-once", st == "ok" and len(got) == 1)
    if len(got) == 1:
        a = got[0]
        if mode == 0:
            c.prove("handler/values", isinstance(a, dict) and a["x"] is x and a["y"] is y)
        elif mode == 1:
            c.prove("handler/all-values", isinstance(a, dict) and len(a["x"]) == 1 and a["x"][0] is x)
        else:
            c.prove("handler/full", a is caps)
    # the documented defaults of register: an immediate rule whose function receives the single values
    dov = it.call(Ov, [], {})
    got_r = []
    st, _ = run(it, it.getattr(dov, "register"), [sel, SummaryFn("default-fn", lambda it_, a, k: got_r.append(a[0]))])
    ok_d = st == "ok" and len(dov.fields["handlers"]) == 1 and dov.fields["handlers"][0].cls.name == "Immediate"
    if ok_d:
        run(it, dov.fields["handlers"][0].fields["_trigger"], [caps])
    c.prove("register/defaults:immediate-rule-single-values", ok_d and len(got_r) == 1 and isinstance(got_r[0], dict) and got_r[0].get("x") is x and got_r[0].get("y") is y)
    dest = []
    st, d = run(it, it.getattr(base, "tap"), [sel], dict(dest=dest))
    c.prove("tap/returns-the-list-it-appends-to", st == "ok" and d is dest and len(base.fields["handlers"]) == 2)
    if st == "ok" and len(base.fields["handlers"]) == 2:
        h2 = base.fields["handlers"][1]
        st, _ = run(it, h2.fields["_trigger"], [caps])
        c.prove("tap/each-event-appended-once", st == "ok" and len(dest) == 1 and isinstance(dest[0], dict) and dest[0]["x"] is x and dest[0]["y"] is y)
    st, d2 = run(it, it.getattr(base, "tap"), [sel], {})
    c.prove("tap/creates-a-fresh-list-when-none-is-given", st == "ok" and d2 == [] and d2 is not dest)
    # on(selector, **kwargs) is the decorator form of register: same rule, and the function itself is handed back
    ov2 = it.call(Ov, [], {})
    st, deco = run(it, it.getattr(ov2, "on"), [sel], kw)
    c.prove("on/returns-a-decorator-without-registering", st == "ok" and ov2.fields["handlers"] == [])
    del got[:]
    st, back = run(it, deco, [fn])
    c.prove("on/decorator-registers-once-and-returns-the-function", st == "ok" and back is fn and len(ov2.fields["handlers"]) == 1)
    if st == "ok" and len(ov2.fields["handlers"]) == 1:
        h3 = ov2.fields["handlers"][0]
        c.prove("on/same-kind-of-rule-as-register", h3.cls.name == ("Immediate" if immediate else "Total") and h3.fields["selector"] is sel)
        st, _ = run(it, h3.fields["_trigger"] if immediate else h3.fields["_close"], [caps])
        c.prove("on/handler-calls-fn-once-with-the-same-payload", st == "ok" and len(got) == 1 and (got[0] is caps if mode == 2 else isinstance(got[0], dict)))


@unit("Probe.emit2", ["C06", "C17", "C01", "C04", "C16"], [P + ":Probe._emit2", P + ":Probe._emit"])
def u_emit2(c):
    """_emit2 (wrapper probes f(!#enter, !!#exit)): pushes once the values plus a $wrap record naming the accumulator, the main
    capture and whether this is the begin (first focus) or the end (second focus) event; returns ABSENT."""
    it = Interp(c)
    from contracts.lifecycle import _giving_hooks, _observer

    _giving_hooks(it)
    events = []
    prb = Obj(it.get_global(P, "Probe"), c.new_id())
    raw = bool(c.choose(2, "raw"))
    live = bool(c.choose(2, "probe-is-active"))
    prb.fields.update(_raw=raw, _observers=[_observer(it, "o1", events)], _root=None, _live=live)
    prb.fields["_root"] = prb
    begin = bool(c.choose(2, "begin"))
    v = c.val("v")
    data = _capdict(it, a=v)
    main = SymObj("main", Val.ref(z3.IntVal(c.new_id())), attrs={"capture": "#enter"})
    acc = SymObj("acc", Val.ref(z3.IntVal(c.new_id())), attrs={"selector": SymObj("sel", Val.ref(z3.IntVal(c.new_id())), attrs={"main": main})})
    el = SymObj("el", Val.ref(z3.IntVal(c.new_id())), attrs={"focus": begin})
    st, r = run(it, it.getattr(prb, "_emit2"), [data], dict(acc=acc, element=el))
    c.prove("emit2/returns-ABSENT", st == "ok" and r is it.models.absent(it))
    if not live:
        # what happens while the probe is not active (during the completion of its stream, in an activation that outlives it) is not
        # part of the stream: the begin / end events of a wrapper probe are no exception
        c.prove("emit2/nothing-is-pushed-while-the-probe-is-not-active", events == [], note=str([e[:2] for e in events]), only=["C17"])
        return
    c.prove("emit2/pushed-once", len(events) == 1)
    if len(events) == 1:
        payload = events[0][2]
        w = payload.get("$wrap") if isinstance(payload, dict) else None
        c.prove("emit2/wrap-record", isinstance(w, dict) and w.get("name") == "#enter" and w.get("step") == ("begin" if begin else "end") and "id" in w)
        c.prove("emit2/payload-values", payload.get("a") is (data["a"] if raw else v))


@unit("probing-entry-points", ["C17", "C05", "C04"], [P + ":probing", P + ":global_probe", P + ":Probe.activate", P + ":Probe.deactivate",
                                                     P + ":Probe.__init__", P + ":Probe._enter", P + ":Probe._exit"])
def u_entry_points(c):
    """probing(...) builds a Probe (OverridableProbe when overridable=True) without activating it; global_probe activates
    immediately; deactivate undoes activate (same steps as leaving a with-block); at least one selector is required and the probe
    type must be one of the documented ones."""
    it = Interp(c)
    from contracts.lifecycle import _giving_hooks

    _giving_hooks(it)
    events = []
    it.policies[O + ":autotool"] = lambda it_, f, a, k: (events.append(("autotool", bool(k.get("undo", False)))), a[0])[1]
    sel = _real_selector(it)
    gp = it.get_global(P, "global_probes")
    HC = it.get_global(O, "HandlerCollection")
    var = HC.attrs["current"]
    k = c.choose(5, "entry")
    if k == 4:
        # a DERIVED handle (what probe["a"], probe.min(), ... return: same class, own observable, shared root) stands for the
        # probe: deactivating through it deactivates the root (the README keeps global probes that way)
        st, prb = run(it, it.get_global(P, "global_probe"), [sel])
        c.require(st == "ok")
        derived = it.call(it.getattr(prb, "_copy"), [SymObj("derived-observable", Val.ref(z3.IntVal(c.new_id())))], {})
        c.prove("derived/shares-the-root", derived is not prb and derived.fields["_root"] is prb)
        st, _ = run(it, it.getattr(derived, "deactivate"), [])
        c.prove("deactivate-through-derived-handle/undoes-activation", st == "ok" and prb not in gp and var.value is None and events == [("autotool", False), ("autotool", True)])
        st, r = run(it, it.getattr(derived, "activate"), [])
        c.prove("activate-through-derived-handle/refused-after-use", st == "raise" and events == [("autotool", False), ("autotool", True)])
        return
    if k == 0:
        overridable = bool(c.choose(2))
        st, prb = run(it, it.get_global(P, "probing"), [sel], dict(overridable=overridable))
        c.prove("probing/builds-inactive-probe", st == "ok" and prb.cls.name == ("OverridableProbe" if overridable else "Probe")
                and prb.fields["_activated"] is False and prb not in gp and var.value is None and events == [])
    elif k == 1:
        st, prb = run(it, it.get_global(P, "global_probe"), [sel])
        c.prove("global_probe/active-at-once", st == "ok" and prb.fields["_activated"] is True and prb in gp and var.value is not None and events == [("autotool", False)])
        st, _ = run(it, it.getattr(prb, "deactivate"), [])
        c.prove("deactivate/undoes-activation", st == "ok" and prb not in gp and var.value is None and events == [("autotool", False), ("autotool", True)])
    elif k == 2:
        st, r = run(it, it.get_global(P, "probing"), [])
        c.prove("no-selector/TypeError", st == "raise" and isinstance(r, TypeError))
    else:
        st, r = run(it, it.get_global(P, "probing"), [sel], dict(probe_type="weird"))
        c.prove("bad-probe-type/TypeError", st == "raise" and isinstance(r, TypeError))


# ---------------------------------------------------------------------------------------------
# value expressions
# ---------------------------------------------------------------------------------------------
VACTIONS = {"X , X": ("vmake_sequence", "{0}, {1}"), "X ( _ ) _": ("vmake_call", "{0}()"), "X ( X ) _": ("vmake_call", "{0}({1})"), "X = X": ("vmake_keyword", "{0}={1}")}
VK_TEXT = {"vsymbol": "v", "vcall": "h(1)", "vkeyword": "k=1", "vlist": "1, 2"}


@unit("value-actions", ["C18"], [S + ":vmake_sequence", S + ":vmake_call", S + ":vmake_keyword", S + ":vmake_symbol"], replay_decides=True,
      replay=lambda o: __import__("contracts.selparse", fromlist=["_replay_parse"])._replay_parse(o))
def u_value_actions(c):
    """Every value_evaluate action for every combination of kinds of its evaluated operands returns a value node (VSymbol, VCall,
    VKeyword or a list) or raises SyntaxError -- never an assertion / attribute error."""
    from contracts.selparse import _operand

    it = Interp(c)
    keys = sorted(VACTIONS)
    key = keys[c.choose(len(keys), "action")]
    fname, template = VACTIONS[key]
    slots = [p for i, p in enumerate(key.split(" ")) if i % 2 == 0]
    kinds, operands = [], []
    for sl in slots:
        if sl == "_":
            kinds.append(None)
            operands.append(None)
        else:
            kk = ["vsymbol", "vcall", "vkeyword", "vlist"][c.choose(4, "kind")]
            kinds.append(kk)
            operands.append(SymObj("tree:" + kk, Val.ref(z3.IntVal(c.new_id())), attrs={"_kind": kk}))

    def ev_policy(it_, f, args, kwargs):
        tree = args[1]
        if isinstance(tree, SymObj) and "_kind" in tree.attrs:
            return _operand(it_, tree.attrs["_kind"])
        return it_.call_body(f, args, kwargs)

    it.policies[S + ":Evaluator.__call__"] = ev_policy
    text = "x~" + template.format(*["(" + VK_TEXT[k] + ")" if k in ("vkeyword", "vlist") else VK_TEXT.get(k, "") for k in (kinds + [None, None])[:3]])
    node = it.call(it.get_global(OP, "Token"), ["op", "OPERATOR", text, 0, 1], {})
    st, r = run(it, it.get_global(S, fname), [node] + operands, dict(context="root"))
    if st == "ok":
        ok = isinstance(r, list) or (isinstance(r, Obj) and r.cls.name in ("VSymbol", "VCall", "VKeyword"))
        c.prove(f"{fname}/returns-a-value-node", ok, note=f"kinds={kinds} string={text} ||")
    else:
        c.prove(f"{fname}/no-internal-error:{'+'.join(str(k) for k in kinds)}", isinstance(r, SyntaxError),
                note=f"raised {exc_name(r)}: {r!r} string={text} ||")


@unit("value-eval", ["C12"], [S + ":VSymbol.eval", S + ":VCall.eval", S + ":_eval", S + ":dict_resolver", U + ":DictPile.__getitem__", U + ":DictPile.__contains__",
                             U + ":DictPile.__init__"],
      mode="bounded", bound="literal forms 12, -3, 1.5, 'txt', a name, a dotted name, @tag, a call with positional and keyword arguments; re.fullmatch executed natively")
def u_value_eval(c):
    """Value expressions in selectors are evaluated in the caller's environment: integer / float / string literals denote
    themselves, names are looked up in the environment (locals before globals before builtins), dotted names follow attributes,
    @T is the tag T, f(a, k=b) calls the resolved function with the evaluated arguments exactly once."""
    it = Interp(c)
    VSymbol, VCall, VKeyword = (it.get_global(S, n) for n in ("VSymbol", "VCall", "VKeyword"))
    DictPile = it.get_global(U, "DictPile")
    holder = SymObj("holder", Val.ref(z3.IntVal(c.new_id())), attrs={"inner": SymObj("inner", Val.ref(z3.IntVal(c.new_id())))}, closed=True)
    glob_v = SymObj("global_value", Val.ref(z3.IntVal(c.new_id())), closed=True)
    loc_v = SymObj("local_value", Val.ref(z3.IntVal(c.new_id())), closed=True)
    holder.attrs["inner"].closed = True
    calls = []
    fn = SummaryFn("every", lambda it_, a, k: (calls.append((a, k)), "RESULT")[1])
    env = it.call(DictPile, [{"shadow": loc_v}, {"shadow": glob_v, "g": glob_v, "holder": holder, "every": fn}, {"len": len}], {})
    k = c.choose(9, "form")
    forms = ["12", "-3", "1.5", "'txt'", "g", "shadow", "holder.inner", "@T", "len"]
    text = forms[k]
    st, r = run(it, it.getattr(it.call(VSymbol, [text], {}), "eval"), [env])
    c.prove("symbol/no-raise", st == "ok")
    want = {"12": 12, "-3": -3, "1.5": 1.5, "'txt'": "txt"}
    if text in want:
        c.prove("symbol/literal-denotes-itself", r == want[text] and type(r) is type(want[text]))
    elif text == "g":
        c.prove("symbol/global-lookup", r is glob_v)
    elif text == "shadow":
        c.prove("symbol/locals-shadow-globals", r is loc_v)
    elif text == "holder.inner":
        c.prove("symbol/dotted-follows-attributes", r is holder.attrs["inner"])
    elif text == "@T":
        c.prove("symbol/@T-is-the-tag", r is it.getattr(it.get_global("ptera.tags", "tag"), "T"))
    else:
        c.prove("symbol/builtins-last", r is len)
    st, r = run(it, it.getattr(it.call(VSymbol, ["missing"], {}), "eval"), [env])
    c.prove("symbol/unknown-name-SelectorError", st == "raise" and exc_name(r) == "SelectorError")
    # the environment may also be a resolver FUNCTION (what a module installs as __ptera_resolver__): a name is what it returns
    resolved = SymObj("resolved-by-function", Val.ref(z3.IntVal(c.new_id())), closed=True)
    asked = []
    st, r = run(it, it.getattr(it.call(VSymbol, ["some.name"], {}), "eval"), [SummaryFn("resolver", lambda it_, a, k: (asked.append(a[0]), resolved)[1])])
    c.prove("symbol/resolver-function-is-asked-and-its-answer-returned", st == "ok" and r is resolved and asked == ["some.name"])
    call = it.call(VCall, [it.call(VSymbol, ["every"], {}), (it.call(VSymbol, ["3"], {}), it.call(VKeyword, [it.call(VSymbol, ["start"], {}), it.call(VSymbol, ["g"], {})], {}))], {})
    st, r = run(it, it.getattr(call, "eval"), [env])
    c.prove("call/evaluated-once-with-evaluated-arguments", st == "ok" and r == "RESULT" and len(calls) == 1 and list(calls[0][0]) == [3]
            and set(calls[0][1]) == {"start"} and calls[0][1]["start"] is glob_v)
    # several keyword arguments, positional ones in between: every(3, start=g, 7, end=shadow) -> all of them reach the predicate
    del calls[:]
    kw = lambda k_, v_: it.call(VKeyword, [it.call(VSymbol, [k_], {}), it.call(VSymbol, [v_], {})], {})
    call2 = it.call(VCall, [it.call(VSymbol, ["every"], {}), (it.call(VSymbol, ["3"], {}), kw("start", "g"), it.call(VSymbol, ["7"], {}), kw("end", "shadow"), kw("modulo", "12"))], {})
    st, r = run(it, it.getattr(call2, "eval"), [env])
    c.prove("call/every-positional-and-keyword-argument-is-passed", st == "ok" and len(calls) == 1 and list(calls[0][0]) == [3, 7]
            and set(calls[0][1]) == {"start", "end", "modulo"} and calls[0][1]["start"] is glob_v and calls[0][1]["end"] is loc_v and calls[0][1]["modulo"] == 12,
            note=f"{st} positional={list(calls[0][0]) if calls else None} keywords={sorted(calls[0][1]) if calls else None}")


@unit("DictPile", ["C16", "C01"], [U + ":DictPile.__init__", U + ":DictPile.__getitem__", U + ":DictPile.__contains__"])
def u_dictpile(c):
    """DictPile(d1, d2, default=D)[k]: the value from the FIRST dictionary containing k, else D (the externals prelude relies on
    default=ABSENT for undefined globals); `in` is membership in any of them; nothing is modified."""
    it = Interp(c)
    DictPile = it.get_global(U, "DictPile")
    absent = it.models.absent(it)
    a, b, b2 = c.val("a"), c.val("b"), c.val("b2")
    d1, d2 = {"k1": a, "both": b}, {"both": b2, "k2": b2}
    pile = it.call(DictPile, [d1, d2], dict(default=absent))
    key = ["k1", "both", "k2", "nowhere"][c.choose(4, "key")]
    st, r = run(it, SummaryFn("getitem", lambda it_, aa, kk: it_.getitem(pile, key)), [])
    want = {"k1": a, "both": b, "k2": b2, "nowhere": absent}[key]
    c.prove("getitem/first-dictionary-wins-else-default", st == "ok" and r is want)
    c.prove("contains/any-dictionary", it.truth(it.contains(pile, key)) == (key != "nowhere"))
    c.prove("frame/unmodified", d1 == {"k1": a, "both": b} and d2 == {"both": b2, "k2": b2})
    strict = it.call(DictPile, [d1], {})
    st, r = run(it, SummaryFn("getitem", lambda it_, aa, kk: it_.getitem(strict, "nowhere")), [])
    c.prove("getitem/no-default-KeyError", st == "raise" and isinstance(r, KeyError))


@unit("tooled-inplace", ["C01", "C14", "C05"], [O + ":tooled", O + ":inplace", U + ":is_tooled", U + ":keyword_decorator"],
      assumed=["transform() used through a ghost call (its orchestration is the unit transform-orchestration)"])
def u_tooled(c):
    """tooled(fn): already tooled functions are returned as they are, otherwise transform(fn, proceed); tooled.inplace(fn): the
    function object keeps its identity and receives the transformed code / info / token, the registry is told about the swap
    before it happens, the discarded copy is marked, and globals[token] is the function itself."""
    import types

    it = Interp(c)
    reg = []
    registry = SymObj("code_registry", Val.ref(z3.IntVal(c.new_id())), attrs={"update_cache_entry": SummaryFn("uce", lambda it_, a, k: reg.append(tuple(a)))})
    it.import_hook = lambda m, n: registry if (m, n) == ("codefind", "code_registry") else None
    tcalls = []
    newcode, newinfo = SymObj("newcode", Val.ref(z3.IntVal(c.new_id()))), SymObj("newinfo", Val.ref(z3.IntVal(c.new_id())))
    new_fn = SymObj("new_fn", Val.ref(z3.IntVal(c.new_id())), attrs={"__code__": newcode, "__ptera_info__": newinfo, "__ptera_token__": "_ptera__9",
                                                                        "_conformer": "CONF"})

    def transform(it_, f, a, k):
        tcalls.append((a, k))
        return new_fn

    it.policies[TR + ":transform"] = transform
    already = bool(c.choose(2, "already-tooled"))
    glb = {}
    oldcode = SymObj("oldcode", Val.ref(z3.IntVal(c.new_id())))
    fn = SymObj("fn", Val.ref(z3.IntVal(c.new_id())), attrs={"__code__": oldcode, "__globals__": glb}, closed=True)
    fn.attrs["__isinstance__"] = lambda it_, v, cls: cls in (types.FunctionType, object)
    if already:
        fn.attrs["__ptera_info__"] = {}
    which = c.choose(2, "entry")
    if which == 0:
        tooled = it.get_global(O, "tooled")
        st, r = run(it, tooled, [fn])
        if already:
            c.prove("tooled/idempotent", st == "ok" and r is fn and tcalls == [])
        else:
            c.prove("tooled/transforms-with-proceed", st == "ok" and r is new_fn and len(tcalls) == 1 and tcalls[0][0][0] is fn
                    and tcalls[0][1].get("proceed") is it.get_global(O, "proceed"))
    else:
        st, r = run(it, it.get_global(O, "inplace"), [fn])
        if already:
            c.prove("inplace/idempotent", st == "ok" and r is fn and tcalls == [])
        else:
            c.prove("inplace/keeps-identity", st == "ok" and r is fn)
            c.prove("inplace/installs-code-info-token", fn.attrs["__code__"] is newcode and fn.attrs["__ptera_info__"] is newinfo and fn.attrs["__ptera_token__"] == "_ptera__9")
            c.prove("inplace/registry-told-before-swap", len(reg) == 1 and reg[0][0] is fn and reg[0][1] is oldcode and reg[0][2] is newcode)
            c.prove("inplace/copy-discarded-and-self-reference", new_fn.attrs.get("__ptera_discard__") is True and glb.get("_ptera__9") is fn)


@unit("selector-validity", ["C15"], [S + ":Element.valid", S + ":Call.valid", S + ":Element.focus", S + ":Call.focus", S + ":Element.main", S + ":Call.main",
                                     S + ":Element.encode", S + ":Call.encode"], mode="bounded", bound="calls with <= 2 captures and <= 1 child, each capture focused or not")
def u_validity(c):
    """A compiled selector is valid iff it has at most one focus (and wildcards are focused); main is the focused element;
    encode() prints the canonical spelling that parses back to the same object."""
    it = Interp(c)
    Element = it.get_global(S, "Element")
    Call = it.get_global(S, "Call")
    f1, f2, fch = bool(c.choose(2)), bool(c.choose(2)), bool(c.choose(2))
    mk = lambda n, foc: it.call(Element, [], dict(name=n, capture=n, tags=frozenset({1}) if foc else frozenset()))
    e1, e2, e3 = mk("a", f1), mk("b", f2), mk("cc", fch)
    VSymbol = it.get_global(S, "VSymbol")
    child = it.call(Call, [], dict(element=it.call(Element, [], dict(name=it.call(VSymbol, ["g"], {}))), captures=(e3,)))
    top = it.call(Call, [], dict(element=it.call(Element, [], dict(name=it.call(VSymbol, ["f"], {}))), captures=(e1, e2), children=(child,)))
    nfocus = int(f1) + int(f2) + int(fch)
    c.prove("focus/any", it.getattr(top, "focus") == (nfocus > 0))
    c.prove("valid/at-most-one-focus", it.getattr(top, "valid") == (nfocus <= 1))
    main = it.getattr(top, "main")
    first = e1 if f1 else e2 if f2 else e3 if fch else None
    c.prove("main/first-focused-element", main is first)
    st, enc = run(it, it.getattr(top, "encode"), [])
    c.prove("encode/no-raise", st == "ok" and isinstance(enc, str))
    if st == "ok" and nfocus <= 1:
        st, back = run(it, it.get_global(S, "parse"), [enc])
        c.prove("encode/parses-back-to-the-same-object", st == "ok" and back is top, note=str(enc))


@unit("selector-structure", ["C12", "C03", "C07", "C13", "C04"], [S + ":Call.hasval", S + ":Element.hasval", S + ":Call.all_values", S + ":Element.all_values",
                                                           S + ":Call.all_captures", S + ":Element.all_captures", S + ":Call.focus", S + ":Call.all_tags"],
      mode="bounded", bound="selector trees of depth <= 3 (outer > inner > leaf) with one capture per level, a value condition at any subset of levels")
def u_selector_structure(c):
    """The derived views of a compiled selector look at the WHOLE tree: hasval iff some element at any depth carries a value
    condition (this is what switches the capture filter on), all_values lists exactly those elements (own captures first,
    then children), all_captures is the set of every capture name, focus iff some element at any depth is focused."""
    it = Interp(c)
    Element = it.get_global(S, "Element")
    Call = it.get_global(S, "Call")
    depth = 1 + c.choose(3, "depth")
    valued = [bool(c.choose(2, "valued")) for _ in range(depth)]
    focus_at = c.choose(depth + 1, "focus") - 1
    els = []
    node = None
    for lvl in range(depth - 1, -1, -1):
        kw = dict(name=f"v{lvl}", capture=f"v{lvl}")
        if valued[lvl]:
            kw["value"] = lvl + 100
        if lvl == focus_at:
            kw["tags"] = frozenset({1})
        e = it.call(Element, [], kw)
        els.insert(0, e)
        fn = SymObj(f"f{lvl}", Val.ref(z3.IntVal(c.new_id())))
        node = it.call(Call, [], dict(element=it.call(Element, [], dict(name=fn)), captures=(e,), children=(node,) if node is not None else ()))
    c.prove("hasval/iff-a-condition-anywhere-in-the-tree", it.getattr(node, "hasval") == any(valued))
    av = it.getattr(node, "all_values")
    c.prove("all_values/exactly-the-valued-elements-outermost-first", isinstance(av, list) and len(av) == sum(valued)
            and all(a is b for a, b in zip(av, [e for e, v in zip(els, valued) if v])))
    c.prove("all_captures/every-capture-name", it.getattr(node, "all_captures") == {f"v{l}" for l in range(depth)})
    c.prove("focus/anywhere-in-the-tree", it.getattr(node, "focus") == (focus_at >= 0))
    tags = it.getattr(node, "all_tags")
    c.prove("all_tags/focus-tag-maps-to-the-focused-element", (set(tags.keys()) == ({1} if focus_at >= 0 else set()))
            and (focus_at < 0 or tags[1] == {els[focus_at]}))


@unit("terminate-global-probes", ["C17"], [P + ":_terminate_global_probes"], mode="bounded", bound="0-3 global probes active at interpreter exit")
def u_terminate(c):
    """At interpreter exit every global probe that is still active is deactivated exactly once (so that reductions publish their
    result), including when deactivating one removes it from the registry while the loop runs."""
    it = Interp(c)
    gp = it.get_global(P, "global_probes")
    n = c.choose(4, "active")
    done = []
    probes = []
    failing = c.choose(n + 1, "failing") - 1  # one of them (or none) fails when it is deactivated: a reduction over no event (min())
    for i in range(n):
        def deact(it_, a, k, i=i):
            done.append(i)
            gp.discard(probes[i])
            if i == failing:
                raise PyRaise(ValueError("Sequence contains no elements"))

        s_ = SummaryFn("deactivate", deact)
        s_.is_method = False
        probes.append(SymObj(f"probe{i}", Val.ref(z3.IntVal(c.new_id())), attrs={"deactivate": s_}))
        gp.add(probes[i])
    st, _ = run(it, it.get_global(P, "_terminate_global_probes"), [])
    c.prove("no-raise", st == "ok" if failing < 0 else st != "ok", note="the failure of a probe is not swallowed either")
    c.prove("each-active-probe-deactivated-exactly-once", sorted(done) == list(range(n)), note=f"deactivated {sorted(done)} of {n}, probe {failing} fails")
    c.prove("registry-empty-afterwards", len(gp) == 0)


@unit("find-eval-env", ["C10", "C13"], [S + ":_find_eval_env"], mode="bounded", bound="frame chains of length 1-3; each frame in a skipped module, a user module, or a module that installs __ptera_resolver__")
def u_find_eval_env(c):
    """select(s) without env: names are looked up in the CALLER's scope -- the innermost frame that is not inside a skipped module
    (locals, then globals, then builtins), unless a frame on the way installs its own resolver, which wins."""
    it = Interp(c)
    n = 1 + c.choose(3, "frames")
    kinds = [c.choose(4, f"frame{i}") for i in range(n)]  # 0 skipped module (ptera...), 1 user module, 2 module with a resolver, 3 user module called pteradactyl
    frames = []
    nxt = None
    for i in reversed(range(n)):
        # (a module is skipped when it IS one of the named packages or lives inside one: `pteradactyl` is not inside `ptera`)
        glb = {"__name__": ["ptera.probe" if i % 2 else "ptera", "usermod" + str(i), "toolmod" + str(i), "pteradactyl" if i % 2 else "contextlibrary.sub"][kinds[i]]}
        if kinds[i] == 2:
            glb["__ptera_resolver__"] = SymObj(f"resolver{i}", Val.ref(z3.IntVal(c.new_id())))
        fr = SymObj(f"frame{i}", Val.ref(z3.IntVal(c.new_id())), attrs={"f_globals": glb, "f_locals": {f"local{i}": i}, "f_back": nxt}, closed=True)
        frames.insert(0, fr)
        nxt = fr
    # frames[0] is the innermost frame (where the search starts); f_back leads outwards
    chain = frames
    kchain = kinds
    st, r = run(it, it.get_global(S, "_find_eval_env"), ["sel", chain[0], ["ptera", "contextlib"]])
    first = next((j for j, k in enumerate(kchain) if k != 0), None)  # (kind 3 is a user module)
    if first is None:
        c.prove("only-skipped-frames/unreachable-outside-ptera", st == "raise" and isinstance(r, AssertionError))
        return
    c.prove("no-raise", st == "ok")
    fr = chain[first]
    if kchain[first] == 2:
        c.prove("installed-resolver-wins", r is fr.attrs["f_globals"]["__ptera_resolver__"])
    else:
        ok = isinstance(r, Obj) and r.cls.name == "DictPile"
        c.prove("caller-scope/locals-then-globals-then-builtins", ok and list(r.fields["dicts"])[0] is fr.attrs["f_locals"] and list(r.fields["dicts"])[1] is fr.attrs["f_globals"]
                and len(r.fields["dicts"]) == 3, note=repr(r))


@unit("select-environment", ["C10", "C13", "C12", "C18"], [S + ":select"])
def u_select_environment(c):
    """select(s, env=E): when the caller gives an environment -- ANY mapping, the empty one included -- the symbols of the selector are
    resolved in it and nowhere else (a function the environment does not define is refused even when the caller's scope has it); the
    caller's scope is consulted only when no environment is given.  A selector object is returned as it is."""
    it = Interp(c)
    kind = c.choose(4, "env")  # 0 not given, 1 the empty dictionary, 2 a dictionary with entries, 3 a resolver function
    found = SymObj("caller-scope", Val.ref(z3.IntVal(c.new_id())))
    parsed = SymObj("parsed", Val.ref(z3.IntVal(c.new_id())))
    resolved = SymObj("resolved", Val.ref(z3.IntVal(c.new_id())))
    env = [None, {}, {"f": 1}, SummaryFn("resolver", lambda it_, a, k: None)][kind]
    seen = {"find": 0, "resolve": [], "verify": 0}

    def p_find(it_, f, a, k):
        seen["find"] += 1
        seen["skip"] = list(k.get("skip", a[2] if len(a) > 2 else []))
        return found

    it.policies[S + ":_find_eval_env"] = p_find
    it.policies[S + ":_select"] = lambda it_, f, a, k: parsed
    it.policies[S + ":_resolve"] = lambda it_, f, a, k: (seen["resolve"].append((a[0], a[1])), resolved)[1]
    it.policies[S + ":verify"] = lambda it_, f, a, k: seen.__setitem__("verify", seen["verify"] + 1)
    frames = []
    sysmod = SymObj("sys", Val.ref(z3.IntVal(c.new_id())), attrs={"_getframe": SummaryFn("_getframe", lambda it_, a, k: (
        frames.append(a[0]), SymObj("frame", Val.ref(z3.IntVal(c.new_id()))))[1])}, closed=True)
    it.import_hook = lambda mod, name: sysmod if (mod, name) == ("sys", None) else None
    strict = bool(c.choose(2, "strict"))
    st, r = run(it, it.get_global(S, "select"), ["f > x"], dict(**({} if kind == 0 else {"env": env}), strict=strict, skip_modules=["usertool"]))
    c.prove("no-raise", st == "ok", note=repr(r))
    if st != "ok":
        return
    c.prove("returns-the-resolved-selector", r is resolved)
    c.prove("resolved-exactly-once-from-the-parsed-text", len(seen["resolve"]) == 1 and seen["resolve"][0][0] is parsed)
    if kind == 0:
        c.prove("no-environment-given/caller-scope-searched-once", seen["find"] == 1 and seen["resolve"][0][1] is found)
        c.prove("no-environment-given/search-starts-at-the-caller-of-select", frames == [1], note=str(frames))
        c.prove("no-environment-given/ptera-contextlib-and-the-given-modules-skipped", seen.get("skip") == ["ptera", "contextlib", "usertool"], note=str(seen.get("skip")))
    else:
        c.prove("environment-given/names-resolved-in-it-and-nowhere-else", seen["find"] == 0 and seen["resolve"][0][1] is env,
                note=f"env kind {kind}: caller scope searched {seen['find']} time(s)")
    c.prove("strict-verifies-the-result", seen["verify"] == (1 if strict else 0))
    st, r = run(it, it.get_global(S, "select"), [resolved], {})
    c.prove("selector-object-returned-unchanged", st == "ok" and r is resolved and len(seen["resolve"]) == 1)
