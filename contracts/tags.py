"""C11 -- tag selectors capture exactly the bindings that carry the tag: ptera/tags.py, selector.check_element,
PteraTransformer._ann / should_instrument, Call.problems (tag branches)."""
import ast
import itertools

import z3

from pvc.units import (unit, mk_obj, term_of, run, callback, calls_of, LoopSpec, Interp, PyRaise, SymObj,
                       SymSeq, SummaryFn, Obj, Sym, SInt, SBool, SStr, SVal, Val, concretize, exc_name)

TG = "ptera.tags"
S = "ptera.selector"
TR = "ptera.transform"
ALPHA = ["A", "B", "C"]


def _tags(it):
    fac = it.get_global(TG, "tag")
    return {n: it.getattr(fac, n) for n in ALPHA}


def _mk_category_small(it, c, tags):
    k = c.choose(5, "category-kind")
    if k == 0:
        return None, set(), "none"
    if k in (1, 2):
        n = ALPHA[k - 1]
        return tags[n], {n}, "tag"
    if k == 3:
        return it.binop(ast.BitAnd(), tags["A"], tags["B"]), {"A", "B"}, "tagset"
    return it.models.absent(it), set(), "absent"


def _mk_category(it, c, tags):
    """A category as it reaches the runtime: None, a single tag, a tag set (built with the real & operator), or
    something that is not a tag at all (a type annotation, the 'no annotation' marker)."""
    k = c.choose(5, "category-kind")
    if k == 0:
        return None, set(), "none"
    if k == 1:
        n = ALPHA[c.choose(3)]
        return tags[n], {n}, "tag"
    if k == 2:
        names = [ALPHA[c.choose(3)] for _ in range(2 + c.choose(2))]
        cur = tags[names[0]]
        for n in names[1:]:
            cur = it.binop(ast.BitAnd(), cur, tags[n])
        return cur, set(names), "tagset"
    if k == 3:
        return it.models.absent(it), set(), "absent"
    return SymObj("int-annotation", Val.ref(z3.IntVal(c.new_id())), closed=True, attrs={}), set(), "other"


@unit("match_tag", ["C11"], [TG + ":match_tag", TG + ":_merge", TG + ":Tag.__init__", TG + ":TagSet.__init__", TG + ":TagSet.__eq__",
                            TG + ":_TagFactory.__getattr__", S + ":check_element"])
def u_match_tag(c):
    """match_tag(T, cat) <=> T is None or T is a member of cat (a tag set) or cat is the tag T itself; a binding without
    annotation, or annotated with something that is not a tag, never matches a tag.  check_element adds the name test."""
    it = Interp(c)
    tags = _tags(it)
    cat, members, kind = _mk_category(it, c, tags)
    tk = c.choose(4, "to-match")
    T = None if tk == 3 else tags[ALPHA[tk]]
    st, r = run(it, it.get_global(TG, "match_tag"), [T, cat])
    c.prove("match_tag/no-raise", st == "ok")
    want = T is None or (ALPHA[tk] in members)
    c.prove("match_tag/iff-member", st == "ok" and it.truth(r) == want, note=f"T={tk} cat={kind}{members}")
    # check_element: name test and category test
    elname = [None, "x", "y"][c.choose(3)]
    el = mk_obj(it, S, "Element", name=elname, value=it.models.absent(it), category=T, capture="cap", tags=frozenset())
    st, r = run(it, it.get_global(S, "check_element"), [el, "x", cat])
    c.prove("check_element/no-raise", st == "ok")
    c.prove("check_element/iff-name-and-tag", st == "ok" and it.truth(r) == ((elname is None or elname == "x") and want))


@unit("tag-algebra", ["C11"], [TG + ":_merge", TG + ":TagSet.__init__", TG + ":TagSet.__eq__", TG + ":get_tags", TG + ":_TagFactory.__getattr__"])
def u_tag_algebra(c):
    """Tag sets behave as sets: & is commutative, associative and idempotent up to TagSet equality; tags are interned by
    name; get_tags('A') is the tag itself and get_tags('A','B',...) the set; string and object forms coincide."""
    it = Interp(c)
    tags = _tags(it)
    fac = it.get_global(TG, "tag")
    c.prove("interned-by-name", all(it.getattr(fac, n) is tags[n] for n in ALPHA) and len({id(t) for t in tags.values()}) == 3)
    names = [ALPHA[c.choose(3)] for _ in range(3)]
    a, b, cc = (tags[n] for n in names)
    AND = ast.BitAnd()
    ab, ba = it.binop(AND, a, b), it.binop(AND, b, a)
    c.prove("and/builds-set-of-members", isinstance(ab, Obj) and ab.cls.name == "TagSet" and set(ab.fields["members"]) == {a, b})
    c.prove("and/commutative", it.truth(it.compare(ast.Eq(), ab, ba)))
    l = it.binop(AND, it.binop(AND, a, b), cc)
    r = it.binop(AND, a, it.binop(AND, b, cc))
    c.prove("and/associative", it.truth(it.compare(ast.Eq(), l, r)) and set(l.fields["members"]) == {a, b, cc})
    c.prove("and/idempotent", it.truth(it.compare(ast.Eq(), it.binop(AND, ab, a), ab)) and it.truth(it.compare(ast.Eq(), it.binop(AND, ab, ab), ab)))
    c.prove("eq/different-sets-differ", it.truth(it.compare(ast.Eq(), ab, it.binop(AND, a, cc))) == ({a, b} == {a, cc}))
    c.prove("eq/set-is-not-a-tag", not it.truth(it.compare(ast.Eq(), ab, a)))
    gt = it.get_global(TG, "get_tags")
    st, one = run(it, gt, [names[0]])
    c.prove("get_tags/single-is-the-tag", st == "ok" and one is a)
    st, many = run(it, gt, [names[0], names[1], names[2]])
    c.prove("get_tags/several-is-the-set", st == "ok" and isinstance(many, Obj) and many.cls.name == "TagSet" and set(many.fields["members"]) == {a, b, cc})
    st, mixed = run(it, gt, [a, names[1]])
    c.prove("get_tags/string-and-object-forms-coincide", st == "ok" and it.truth(it.compare(ast.Eq(), mixed, ab)))


ANN_STRINGS = ["@A", "@A & @B", "@A&@B", "@A  &   @B", "@B & @A & @C", "@A & @A", "not a tag", "A & B"]


@unit("_ann", ["C11"], [TR + ":PteraTransformer._ann", TR + ":PteraTransformer._get"], mode="bounded",
      bound="the tag-string forms listed in ANN_STRINGS (spacing variants, 1-3 tags, repetition, non-tag strings); re.split executed natively")
def u_ann(c):
    """A string annotation starting with @ is rewritten to get_tags('A', 'B', ...) with exactly the @-names in order;
    any other annotation (non-@ strings, expressions, None) is passed through unchanged."""
    it = Interp(c)
    tr = mk_obj(it, TR, "PteraTransformer", lib={"get_tags": ("__ptera_get_tags", None)})
    k = c.choose(len(ANN_STRINGS) + 2, "annotation")
    if k >= len(ANN_STRINGS):
        node = None if k == len(ANN_STRINGS) else ast.parse("tag.A & tag.B", mode="eval").body
        st, r = run(it, it.getattr(tr, "_ann"), [node])
        c.prove("non-string/unchanged", st == "ok" and r is node)
        return
    s = ANN_STRINGS[k]
    node = ast.parse(repr(s), mode="eval").body
    st, r = run(it, it.getattr(tr, "_ann"), [node])
    c.prove("no-raise", st == "ok")
    if s.startswith("@"):
        import re

        names = [t.strip()[1:] for t in s.split("&")]
        ok = (isinstance(r, ast.Call) and isinstance(r.func, ast.Name) and r.func.id == "__ptera_get_tags"
              and [a.value for a in r.args] == names and not r.keywords)
        c.prove("tag-string/rewritten-to-get_tags-of-the-names", ok, note=f"{s!r} -> {ast.dump(r) if isinstance(r, ast.AST) else r}")
    else:
        c.prove("other-string/unchanged", r is node)


@unit("should_instrument", ["C11", "C01", "C16"], [TR + ":PteraTransformer.should_instrument", S + ":check_element", TG + ":match_tag"])
def u_should_instrument(c):
    """should_instrument(name, ann) <=> some element of the capture set matches (name, evaluated annotation): exactly the
    bindings an active selector can select are instrumented (so it is a superset of the delivery filter of interact)."""
    it = Interp(c)
    tags = _tags(it)
    cat, members, kind = _mk_category_small(it, c, tags)
    cat2, members2, kind2 = _mk_category_small(it, c, tags)
    n1, n2 = ast.Name(id="ann1", ctx=ast.Load()), ast.Name(id="ann2", ctx=ast.Load())
    it.policies[TR + ":PteraTransformer._evaluate"] = lambda it_, f, a, k: cat if a[1] is n1 else cat2
    els = []
    want = want2 = False
    for i in range(c.choose(3)):
        elname = [None, "x", "y"][c.choose(3) if i == 0 else c.choose(2)]
        tk = c.choose(4) if i == 0 else [0, 3][c.choose(2)]
        T = None if tk == 3 else tags[ALPHA[tk]]
        els.append(mk_obj(it, S, "Element", name=elname, value=it.models.absent(it), category=T, capture=f"c{i}", tags=frozenset()))
        want = want or ((elname is None or elname == "x") and (T is None or ALPHA[tk] in members))
        want2 = want2 or ((elname is None or elname == "x") and (T is None or ALPHA[tk] in members2))
    tr = mk_obj(it, TR, "PteraTransformer", to_instrument=els)
    st, r = run(it, it.getattr(tr, "should_instrument"), ["x", n1])
    c.prove("no-raise", st == "ok")
    c.prove("iff-some-capture-matches", st == "ok" and it.truth(r) == want)
    # the decision is per BINDING (name, annotation of that binding), not per name: a second binding of the same
    # variable with another annotation is decided on its own
    st, r2 = run(it, it.getattr(tr, "should_instrument"), ["x", n2])
    c.prove("second-binding-of-the-same-name-decided-on-its-own-annotation", st == "ok" and it.truth(r2) == want2, only=["C11", "C16", "C01"])


@unit("C11.lemma", ["C11"], [])
def u_c11_lemma(c):
    """Lemma over the contracts: a binding b=(name, category) of f is delivered to the handler of capture element el
    iff check_element(el, name, category), provided el is in the capture set installed on f (autotool pushes the
    captures of every selector level): instrumented(b) <=> exists e in set. CE(e,b); delivered <=> instrumented(b) and CE(el,b)."""
    ce_el = z3.Bool("CE_el_b")
    others = z3.Bool("CE_some_other_capture_b")
    instrumented = z3.Or(ce_el, others)          # should_instrument contract with el in the capture set
    delivered = z3.And(instrumented, ce_el)      # transformer emits interact iff instrumented; interact delivers iff CE(el,b)
    c.prove("delivered-iff-check_element", delivered == ce_el)
