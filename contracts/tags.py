"""C11 -- tag selectors capture exactly the bindings that carry the tag: ptera/tags.py, selector.check_element,
PteraTransformer._ann / should_instrument, Call.problems (tag branches)."""
import ast
import itertools

import z3

from pvc.units import (unit, mk_obj, term_of, run, callback, calls_of, LoopSpec, Interp, PyRaise, SymObj,
                       SymSeq, SummaryFn, Obj, Sym, SInt, SBool, SStr, SVal, Val, concretize, exc_name)

TG = "ptera.tags"
S = "ptera.selector"
TR = "ptera.transform"
ALPHA = ["A", "B", "C"]


def _tags(it):
    fac = it.get_global(TG, "tag")
    return {n: it.getattr(fac, n) for n in ALPHA}


def _mk_category_small(it, c, tags):
    k = c.choose(5, "category-kind")
    if k == 0:
        return None, set(), "none"
    if k in (1, 2):
        n = ALPHA[k - 1]
        return tags[n], {n}, "tag"
    if k == 3:
        return it.binop(ast.BitAnd(), tags["A"], tags["B"]), {"A", "B"}, "tagset"
    return it.models.absent(it), set(), "absent"


def _mk_category(it, c, tags):
    """A category as it reaches the runtime: None, a single tag, a tag set (built with the real & operator), or
    something that is not a tag at all (a type annotation, the 'no annotation' marker)."""
    k = c.choose(5, "category-kind")
    if k == 0:
        return None, set(), "none"
    if k == 1:
        n = ALPHA[c.choose(3)]
        return tags[n], {n}, "tag"
    if k == 2:
        names = [ALPHA[c.choose(3)] for _ in range(2 + c.choose(2))]
        cur = tags[names[0]]
        for n in names[1:]:
            cur = it.binop(ast.BitAnd(), cur, tags[n])
        return cur, set(names), "tagset"
    if k == 3:
        return it.models.absent(it), set(), "absent"
    return SymObj("int-annotation", Val.ref(z3.IntVal(c.new_id())), closed=True, attrs={}), set(), "other"


@unit("match_tag", ["C11"], [TG + ":match_tag", TG + ":_merge", TG + ":Tag.__init__", TG + ":TagSet.__init__", TG + ":TagSet.__eq__",
                            TG + ":_TagFactory.__getattr__", S + ":check_element"])
def u_match_tag(c):
    """match_tag(T, cat) <=> T is None or T is a member of cat (a tag set) or cat is the tag T itself; a binding without
    annotation, or annotated with something that is not a tag, never matches a tag.  check_element adds the name test."""
    it = Interp(c)
    tags = _tags(it)
    cat, members, kind = _mk_category(it, c, tags)
    tk = c.choose(4, "to-match")
    T = None if tk == 3 else tags[ALPHA[tk]]
    st, r = run(it, it.get_global(TG, "match_tag"), [T, cat])
    c.prove("match_tag/no-raise", st == "ok")
    want = T is None or (ALPHA[tk] in members)
    c.prove("match_tag/iff-member", st == "ok" and it.truth(r) == want, note=f"T={tk} cat={kind}{members}")
    # check_element: name test and category test
    elname = [None, "x", "y"][c.choose(3)]
    el = mk_obj(it, S, "Element", name=elname, value=it.models.absent(it), category=T, capture="cap", tags=frozenset())
    st, r = run(it, it.get_global(S, "check_element"), [el, "x", cat])
    c.prove("check_element/no-raise", st == "ok")
    c.prove("check_element/iff-name-and-tag", st == "ok" and it.truth(r) == ((elname is None or elname == "x") and want))


@unit("tag-algebra", ["C11"], [TG + ":_merge", TG + ":TagSet.__init__", TG + ":TagSet.__eq__", TG + ":get_tags", TG + ":_TagFactory.__getattr__"])
def u_tag_algebra(c):
    """Tag sets behave as sets: & is commutative, associative and idempotent up to TagSet equality; tags are interned by
    name; get_tags('A') is the tag itself and get_tags('A','B',...) the set; string and object forms coincide."""
    it = Interp(c)
    tags = _tags(it)
    fac = it.get_global(TG, "tag")
    c.prove("interned-by-name", all(it.getattr(fac, n) is tags[n] for n in ALPHA) and len({id(t) for t in tags.values()}) == 3)
    names = [ALPHA[c.choose(3)] for _ in range(3)]
    a, b, cc = (tags[n] for n in names)
    AND = ast.BitAnd()
    ab, ba = it.binop(AND, a, b), it.binop(AND, b, a)
    c.prove("and/builds-set-of-members", isinstance(ab, Obj) and ab.cls.name == "TagSet" and set(ab.fields["members"]) == {a, b})
    c.prove("and/commutative", it.truth(it.compare(ast.Eq(), ab, ba)))
    l = it.binop(AND, it.binop(AND, a, b), cc)
    r = it.binop(AND, a, it.binop(AND, b, cc))
    c.prove("and/associative", it.truth(it.compare(ast.Eq(), l, r)) and set(l.fields["members"]) == {a, b, cc})
    c.prove("and/idempotent", it.truth(it.compare(ast.Eq(), it.binop(AND, ab, a), ab)) and it.truth(it.compare(ast.Eq(), it.binop(AND, ab, ab), ab)))
    c.prove("eq/different-sets-differ", it.truth(it.compare(ast.Eq(), ab, it.binop(AND, a, cc))) == ({a, b} == {a, cc}))
    c.prove("eq/set-is-not-a-tag", not it.truth(it.compare(ast.Eq(), ab, a)))
    gt = it.get_global(TG, "get_tags")
    st, one = run(it, gt, [names[0]])
    c.prove("get_tags/single-is-the-tag", st == "ok" and one is a)
    st, many = run(it, gt, [names[0], names[1], names[2]])
    c.prove("get_tags/several-is-the-set", st == "ok" and isinstance(many, Obj) and many.cls.name == "TagSet" and set(many.fields["members"]) == {a, b, cc})
    st, mixed = run(it, gt, [a, names[1]])
    c.prove("get_tags/string-and-object-forms-coincide", st == "ok" and it.truth(it.compare(ast.Eq(), mixed, ab)))


ANN_STRINGS = ["@A", "@A & @B", "@A&@B", "@A  &   @B", "@B & @A & @C", "@A & @A", "not a tag", "A & B", "@A ", "@A & @B ", "@A  &  @B  "]


@unit("_ann", ["C11"], [TR + ":PteraTransformer._ann", TR + ":PteraTransformer._get"], mode="bounded",
      bound="the tag-string forms listed in ANN_STRINGS (spacing variants, 1-3 tags, repetition, non-tag strings); re.split executed natively")
def u_ann(c):
    """A string annotation starting with @ is rewritten to get_tags('A', 'B', ...) with exactly the @-names in order;
    any other annotation (non-@ strings, expressions, None) is passed through unchanged."""
    it = Interp(c)
    tr = mk_obj(it, TR, "PteraTransformer", lib={"get_tags": ("__ptera_get_tags", None)})
    k = c.choose(len(ANN_STRINGS) + 2, "annotation")
    if k >= len(ANN_STRINGS):
        node = None if k == len(ANN_STRINGS) else ast.parse("tag.A & tag.B", mode="eval").body
        st, r = run(it, it.getattr(tr, "_ann"), [node])
        c.prove("non-string/unchanged", st == "ok" and r is node)
        return
    s = ANN_STRINGS[k]
    node = ast.parse(repr(s), mode="eval").body
    st, r = run(it, it.getattr(tr, "_ann"), [node])
    c.prove("no-raise", st == "ok")
    if s.startswith("@"):
        import re

        names = [t.strip()[1:] for t in s.split("&")]
        ok = (isinstance(r, ast.Call) and isinstance(r.func, ast.Name) and r.func.id == "__ptera_get_tags"
              and [a.value for a in r.args] == names and not r.keywords)
        c.prove("tag-string/rewritten-to-get_tags-of-the-names", ok, note=f"{s!r} -> {ast.dump(r) if isinstance(r, ast.AST) else r}")
    else:
        c.prove("other-string/unchanged", r is node)


@unit("TagSet.equality", ["C11"], [TG + ":TagSet.__eq__", TG + ":_merge", TG + ":TagSet.__init__"])
def u_tagset_eq(c):
    """Tag sets behave as sets: two tag sets are equal iff they have the same members (whatever the order and repetition of &), and a
    tag set is never equal to something that is not a tag set."""
    it = Interp(c)
    tags = _tags(it)
    band = lambda a, b: it.binop(ast.BitAnd(), a, b)
    sets = [("A&B", band(tags["A"], tags["B"]), {"A", "B"}), ("B&A", band(tags["B"], tags["A"]), {"A", "B"}), ("A&B&A", band(band(tags["A"], tags["B"]), tags["A"]), {"A", "B"}),
            ("A&C", band(tags["A"], tags["C"]), {"A", "C"}), ("A&B&C", band(band(tags["A"], tags["B"]), tags["C"]), {"A", "B", "C"})]
    n1, s1, m1 = sets[c.choose(len(sets), "left")]
    n2, s2, m2 = sets[c.choose(len(sets), "right")]
    eq = it.truth(it.compare(ast.Eq(), s1, s2))
    c.prove("equal-iff-same-members", eq == (m1 == m2), note=f"{n1} == {n2}: {eq}")
    c.prove("never-equal-to-a-single-tag-or-a-string", not it.truth(it.compare(ast.Eq(), s1, tags["A"])) and not it.truth(it.compare(ast.Eq(), s1, "A & B")))


@unit("should_instrument", ["C11", "C01", "C16", "C04", "C02"], [TR + ":PteraTransformer.should_instrument", S + ":check_element", TG + ":match_tag"])
def u_should_instrument(c):
    """should_instrument(name, ann) <=> some element of the capture set matches (name, evaluated annotation): exactly the
    bindings an active selector can select are instrumented (so it is a superset of the delivery filter of interact)."""
    it = Interp(c)
    tags = _tags(it)
    cat, members, kind = _mk_category_small(it, c, tags)
    cat2, members2, kind2 = _mk_category_small(it, c, tags)
    n1, n2 = ast.Name(id="ann1", ctx=ast.Load()), ast.Name(id="ann2", ctx=ast.Load())
    it.policies[TR + ":PteraTransformer._evaluate"] = lambda it_, f, a, k: cat if a[1] is n1 else cat2
    els = []
    want = want2 = False
    for i in range(c.choose(3)):
        elname = [None, "x", "y"][c.choose(3) if i == 0 else c.choose(2)]
        tk = c.choose(4) if i == 0 else [0, 3][c.choose(2)]
        T = None if tk == 3 else tags[ALPHA[tk]]
        els.append(mk_obj(it, S, "Element", name=elname, value=it.models.absent(it), category=T, capture=f"c{i}", tags=frozenset()))
        want = want or ((elname is None or elname == "x") and (T is None or ALPHA[tk] in members))
        want2 = want2 or ((elname is None or elname == "x") and (T is None or ALPHA[tk] in members2))
    tr = mk_obj(it, TR, "PteraTransformer", to_instrument=els)
    st, r = run(it, it.getattr(tr, "should_instrument"), ["x", n1])
    c.prove("no-raise", st == "ok")
    c.prove("iff-some-capture-matches", st == "ok" and it.truth(r) == want)
    # the decision is per BINDING (name, annotation of that binding), not per name: a second binding of the same
    # variable with another annotation is decided on its own
    st, r2 = run(it, it.getattr(tr, "should_instrument"), ["x", n2])
    c.prove("second-binding-of-the-same-name-decided-on-its-own-annotation", st == "ok" and it.truth(r2) == want2, only=["C11", "C16", "C01", "C04", "C02"])


@unit("C11.lemma", ["C11"], [])
def u_c11_lemma(c):
    """Lemma over the contracts: a binding b=(name, category) of f is delivered to the handler of capture element el
    iff check_element(el, name, category), provided el is in the capture set installed on f (autotool pushes the
    captures of every selector level): instrumented(b) <=> exists e in set. CE(e,b); delivered <=> instrumented(b) and CE(el,b)."""
    ce_el = z3.Bool("CE_el_b")
    others = z3.Bool("CE_some_other_capture_b")
    instrumented = z3.Or(ce_el, others)          # should_instrument contract with el in the capture set
    delivered = z3.And(instrumented, ce_el)      # transformer emits interact iff instrumented; interact delivers iff CE(el,b)
    c.prove("delivered-iff-check_element", delivered == ce_el)


# ---------------------------------------------------------------------------------------------
# The per-name annotation table (__ptera_info__[v]["annotation"]) that fits_selector and Call.problems consult
# ---------------------------------------------------------------------------------------------
INFO_STMTS = [
    ("plain", "x = __E1", None),
    ("augmented", "x += __E1", None),
    ("loop-target", "for x in __E1:\n    __S1", None),
    ("annotated-A", "x: ANN_A = __E1", "A"),
    ("annotated-B", "x: ANN_B = __E1", "B"),
    ("annotated-A&C", "x: ANN_AC = __E1", "AC"),
    ("annotated-non-tag", "x: ANN_int = __E1", "int"),
    ("declared-A", "x: ANN_A", "A"),
    ("declared-non-tag", "x: ANN_int", "int"),
]


def _replay_info(o):
    import re as _re
    m = _re.search(r"previous=(\S+) statement=(\S+):", o.get("note") or "")
    t = _re.search(r"matches-(\w)-iff", o["name"])
    if not m or not t:
        return None
    prev, stmt = m.group(1), m.group(2)
    first = {"none": "pass", "A": "x: '@A' = 0", "B": "x: '@B' = 0", "A&B": "x: '@A & @B' = 0", "B&C": "x: '@B & @C' = 0", "non-tag": "x: int = 0"}[prev]
    second = {"plain": "x = 1", "augmented": "x += 1", "loop-target": "for x in [1]:\n        pass", "annotated-A": "x: '@A' = 1", "annotated-B": "x: '@B' = 1",
              "annotated-A&C": "x: '@A & @C' = 1", "annotated-non-tag": "x: int = 1", "declared-A": "x: '@A'", "declared-non-tag": "x: int"}[stmt]
    carried = set(prev.replace("&", "")) & set("ABCD") if prev not in ("none", "non-tag") else set()
    if stmt.endswith(("-A", "-B", "-A&C")):
        carried |= set(stmt.split("-")[-1].replace("&", ""))
    T = t.group(1)
    src = f"def f():\n    {first}\n    {second}\n    return 0\n"
    return f"""
import os, sys, tempfile, importlib.util
sys.path.insert(0, os.environ.get("PVC_REPO", "/repo"))
from ptera import probing
src = {src!r}
d = tempfile.mkdtemp(); p = os.path.join(d, "info_mod.py"); open(p, "w").write(src)
spec = importlib.util.spec_from_file_location("info_mod", p); mod = importlib.util.module_from_spec(spec); sys.modules["info_mod"] = mod; spec.loader.exec_module(mod)
want = {T in carried!r}
try:
    with probing("f > $v:@{T}", env={{"f": mod.f}}, raw=True) as prb:
        got = prb.accum()
        try:
            mod.f()
        except Exception:
            pass
    accepted = True
except Exception as e:
    print("activation refused:", type(e).__name__, str(e)[:200])
    accepted = False
print(src, "selector f > $v:@{T}: accepted =", accepted, "expected", want)
sys.exit(1 if accepted != want else 0)
"""


@unit("info-table.annotation", ["C11", "C16", "C02"], [TR + ":PteraTransformer.make_interaction", TR + ":PteraTransformer.visit_AnnAssign", TR + ":PteraTransformer._record_annotation"],
      replay=_replay_info, mode="bounded", bound="tag universe {A, B, C, D}; previous table entry in {none, A, B, A&B, B&C, non-tag}; one binding statement of 9 kinds, instrumented or not",
      assumed=["_evaluate(annotation) is the annotation's value (contract); the table entry is what transform() copies into __ptera_info__ (transform-orchestration unit)"])
def u_info_table(c):
    """Induction step for the table that `$v:@T`, `*:@T` and `v:@T` are resolved against (fits_selector registers the names
    whose table entry matches; Call.problems refuses when none does).  From the property: a binding annotated with T must be
    captured, so after processing ANY binding statement of x, for every tag T:
        match_tag(T, table'[x])  <=>  match_tag(T, table[x])  or  the statement annotates x with (a set containing) T
    -- in particular a plain re-binding never removes a tag, and a second annotation never hides the first one."""
    from contracts.transform import setup, parse_stmt

    it, tr, dec = setup(c)
    tags = {n: it.getattr(it.get_global(TG, "tag"), n) for n in "ABCD"}
    band = lambda a, b: it.binop(ast.BitAnd(), a, b)
    anns = {"A": (tags["A"], {"A"}), "B": (tags["B"], {"B"}), "AC": (band(tags["A"], tags["C"]), {"A", "C"}), "int": (int, set())}
    absent = it.models.absent(it)

    def evaluate(it_, f, args, kwargs):
        node = args[1]
        if node is None:
            return absent
        assert isinstance(node, ast.Name) and node.id.startswith("ANN_"), ast.dump(node)
        return anns[node.id[4:]][0]

    it.policies[TR + ":PteraTransformer._evaluate"] = evaluate
    olds = [("none", None, set()), ("A", tags["A"], {"A"}), ("B", tags["B"], {"B"}), ("A&B", band(tags["A"], tags["B"]), {"A", "B"}),
            ("B&C", band(tags["B"], tags["C"]), {"B", "C"}), ("non-tag", int, set())]
    oname, old, oldset = olds[c.choose(len(olds), "previous")]
    if old is not None:
        tr.fields["annotated"]["x"] = old
        tr.fields["linenos"]["x"] = 1
    label, src, ann = INFO_STMTS[c.choose(len(INFO_STMTS), "statement")]
    node = parse_stmt(src)
    st, out = run(it, it.getattr(tr, "visit"), [node])
    c.prove(f"{label}/visitor-does-not-raise", st == "ok")
    if st != "ok":
        return
    entry = tr.fields["annotated"].get("x", absent)
    match = it.get_global(TG, "match_tag")
    for T in "ABCD":
        got = it.truth(it.call(match, [tags[T], entry], {}))
        want = T in oldset or (ann is not None and T in anns[ann][1])
        c.prove(f"table-entry-matches-{T}-iff-some-binding-so-far-carries-{T}", got == want, note=f"previous={oname} statement={label}: match={got} expected={want}")
    c.prove("other-names-untouched", set(tr.fields["annotated"]) <= {"x"})


@unit("fits_selector.function-tag", ["C11"], ["ptera.overlay:fits_selector", S + ":check_element", TG + ":match_tag", TG + ":parse_tags"], mode="bounded",
      bound="return annotation in {tag object, '@A', '@B & @A', '@B', none, a plain string, a type}; selector tag in {A, B, C}")
def u_fits_function_tag(c):
    """A tag on the function position (*:@T > y) selects exactly the functions whose RETURN annotation carries T -- written as a
    tag object or in the string form that is recognised for variables ('@A', '@A & @B')."""
    it = Interp(c)
    tags = {n: it.getattr(it.get_global(TG, "tag"), n) for n in "ABC"}
    band = lambda a, b: it.binop(ast.BitAnd(), a, b)
    returns = [("tag.A", tags["A"], {"A"}), ("'@A'", "@A", {"A"}), ("'@B & @A'", "@B & @A", {"A", "B"}), ("'@B'", "@B", {"B"}), ("none", None, set()),
               ("plain string", "A", set()), ("type", int, set()), ("tag.B & tag.C", band(tags["B"], tags["C"]), {"B", "C"})]
    label, ann, carried = returns[c.choose(len(returns), "return-annotation")]
    T = "ABC"[c.choose(3, "selector-tag")]
    Element = it.get_global(S, "Element")
    fel = it.call(Element, [], dict(name=None, category=tags[T], capture="/0"))
    sel = SymObj("sel", Val.ref(z3.IntVal(c.new_id())), attrs={"element": fel, "captures": ()})
    anns = {} if label == "none" else {"return": ann}
    fn = SymObj("fn", Val.ref(z3.IntVal(c.new_id())), attrs={"__annotations__": anns, "__ptera_info__": {}})
    st, res = run(it, it.get_global("ptera.overlay", "fits_selector"), [fn, sel])
    c.prove("no-raise", st == "ok", note=f"{label}: {res!r}")
    if st == "ok":
        c.prove("function-selected-iff-its-return-annotation-carries-the-tag", (res is not False) == (T in carried), note=f"-> {label} against @{T}: {res!r}")
