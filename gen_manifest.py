#!/usr/bin/env python3
"""Regenerates MANIFEST.json from the table below (kept in one place so it is always valid)."""
import json, os
ROOT = os.path.dirname(os.path.abspath(__file__))
CLAIMED = {
    "C12": dict(category="proof", design_ref="DESIGN.md section 5/C12",
        text="Deductive: obligations generated from the real bodies of Range/every/between/lt/gt/lte/gte/throttle, Selector.check_captures (two nested loop invariants, any number of constraints and values) and the BaseAccumulator filter wrapper/trigger/intercept path are discharged by z3 for all integers and all capture dictionaries.",
        note="Trusted: pvc symbolic executor (Python subset semantics, floor-mod encoding), z3; match functions assumed pure predicates; handler callbacks opaque and deterministic. Bounded stand-in (labelled) only used when the loop structure of check_captures changes.",
        technique="contract-based deductive verification: AST->VC symbolic execution of the real functions + z3 (cvc5 cross-check in thorough)"),
}
NOT_YET = {
}
NA = {
    "C08": "Quantifies over thread schedules; sequential pre/postconditions and loop invariants cannot express or decide interleavings, and no thread-aware deductive rule for Python is available here (DESIGN.md section 6).",
}
props = [json.loads(l)["id"] for l in open(os.path.join(ROOT, "properties.jsonl"))]
checks = []
for pid in props:
    if pid in CLAIMED:
        c = CLAIMED[pid]
        checks.append({
            "property_id": pid,
            "quick_cmd": f"./check {pid} quick",
            "thorough_cmd": f"./check {pid} thorough",
            "evidence_file": f"evidence/{pid}.json",
            "replay_cmd_template": "./check --replay {path}",
            "engine": "pvc",
            "level_claimed": {"category": c["category"], "text": c["text"], "design_ref": c["design_ref"]},
            "level_note": c["note"],
            "technique": c["technique"],
        })
na = []
for pid in props:
    if pid in CLAIMED:
        continue
    if pid in NA:
        na.append({"property_id": pid, "reason": NA[pid]})
    else:
        na.append({"property_id": pid, "reason": NOT_YET.get(pid, "not claimed yet: the contracts for this property are not built in this revision (planned, see DESIGN.md section 5)")})
m = {
    "version": 1,
    "setup_cmd": "./setup.sh",
    "hooks": {"guard": "PTERA_VERIF", "enable": "no source hooks are needed: contracts are sidecar files under /verif/contracts and the real source is re-read on every run; checks export PTERA_VERIF=1 for uniformity",
              "baseline_off_cmd": "cd /repo && /venv/bin/python -m pytest -ra -q -p no:cacheprovider --timeout=900 --continue-on-collection-errors",
              "source_commits": [], "add_only": True},
    "engines": [{"name": "pvc", "path": "pvc/", "serves_properties": sorted(CLAIMED), "kind_free_text": "modular symbolic executor for a Python subset generating verification conditions from the real ptera source, discharged with z3 / cvc5"}],
    "checks": checks,
    "not_applicable": na,
    "notes": "See DESIGN.md. known_findings.json lists genuine defects recorded or fixed.",
}
json.dump(m, open(os.path.join(ROOT, "MANIFEST.json"), "w"), indent=1)
print("claimed", sorted(CLAIMED), "not claimed", [x["property_id"] for x in na])
