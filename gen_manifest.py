#!/usr/bin/env python3
"""Regenerates MANIFEST.json from the table below (kept in one place so it is always valid)."""
import json, os
ROOT = os.path.dirname(os.path.abspath(__file__))
TECH = "contract-based deductive verification: AST->VC symbolic execution of the real functions + z3 (cvc5 cross-check in thorough)"
TRUST = "Trusted: pvc symbolic executor (Python-subset semantics, library models listed in the evidence), z3. "
CLAIMED = {
    "C03": dict(category="proof", design_ref="DESIGN.md section 3 (C03), sections 5-6",
        text="Deductive: HandlerCollection.proceed is proved for ANY number of pending (selector, accumulator) pairs against a closed-form loop invariant (next pairs, forks, registrations); fits_selector, register, fork, build, proceed.__enter__/__exit__ are under contract; the stack-step lemma connects the contract to the embedding count.",
        note=TRUST + "fits_selector/register are used by proceed through their contracts; fork of an opaque accumulator is an uninterpreted function of the history; ContextVar token semantics assumed. fits_selector, register and build are proved on concrete spines (bounded, labelled).",
        technique=TECH),
    "C05": dict(category="proof", design_ref="DESIGN.md section 3 (C05), sections 5-6",
        text="Deductive: StackedTransforms/SyncedStackedTransforms push/pop/get/_apply are proved to preserve the multiset invariant from an arbitrary well-formed state (hence after every history), TransformSet memo, _tooler/_untooler/autotool, BaseOverlay.__enter__/__exit__ (any number of handlers) and Probe enter/exit are under contract.",
        note=TRUST + "ContextVar token semantics, codefind registry and transform() are used through ghost events; capture tuples of length <= 2 over 3 elements per operation.",
        technique=TECH),
    "C07": dict(category="proof", design_ref="DESIGN.md section 3 (C07), sections 5-6",
        text="Deductive: Total.{__init__,accumulator_for,log,leaves,close}, Capture.accum, fork/build, proceed (template fork, close_at_exit, unbounded), Interactor.register/exit (exit: any number of accumulators) and proceed.__exit__ are under contract.",
        note=TRUST + "Total.close/leaves and build on concrete accumulator trees (<=2 leaves, depth<=3: bounded, labelled).",
        technique=TECH),
    "C09": dict(category="proof", design_ref="DESIGN.md section 3 (C09), sections 5-6",
        text="Deductive: proceed.__enter__/__exit__/suspend/resume contracts (while an activation is suspended and after it ended the surrounding code has the collection it installed itself, for any number of suspensions, whatever is installed meanwhile and in whatever order activations end; interactor.exit exactly once; exceptions not swallowed; one interactor per activation), and every yield / yield from of an instrumented function is rewritten to go through the frame (transformer schemas). The generator shell itself (proceed.yielding / delegating: generator functions, outside the engine) is decided by a bounded native scenario (all consumer scripts of next / send / throw / close up to length 5, nested activations of one function). The non-LIFO clause that was a recorded finding until fix 05821fe is now proved.",
        note=TRUST + "ContextVar get / set semantics assumed; generator suspension, delegation (PEP 380) and finalisation are CPython semantics; proceed.yielding / delegating are checked by a bounded native scenario, not proved.",
        technique=TECH),
    "C12": dict(category="proof", design_ref="DESIGN.md section 3 (C12), sections 5-6",
        text="Deductive: obligations generated from the real bodies of Range/every/between/lt/gt/lte/gte/throttle, Selector.check_captures (two nested loop invariants, any number of constraints and values) and the BaseAccumulator filter wrapper/trigger/intercept path are discharged by z3 for all integers and all capture dictionaries.",
        note=TRUST + "match functions assumed pure predicates; handler callbacks opaque and deterministic. Bounded stand-in (labelled) only used when the loop structure of check_captures changes.",
        technique=TECH),
    "C17": dict(category="proof", design_ref="DESIGN.md section 3 (C17), sections 5-6",
        text="Deductive: Probe.__init__/_enter/_exit/_emit/_make_rule and giving.SourceProxy.__init__/_push/__enter__/__exit__ (interpreted from the installed giving/gvn.py) are executed symbolically through a full life-cycle history; _push/__exit__ fan-out proved for any number of observers.",
        note=TRUST + "reactivex operators (reductions publish one value on completion, subscribe calls make once) are assumed; autotool used through its contract.",
        technique=TECH),
    "C01": dict(category="proof", design_ref="DESIGN.md section 3 (C01), sections 5-6",
        text="Deductive over program SCHEMAS: every visitor of PteraTransformer (and NodeTransformer.generic_visit from the stdlib source) is executed from its real body on ast nodes with opaque sub-terms, for every capture subset; obligations: erase(visit(s)) ~ s under the normaliser R1-R15 with side conditions, visitor does not raise, output compiles; interact returns the original value when nothing intercepts (unbounded in the number of handlers).",
        note=TRUST + "Trusted: the rewrite rules R1-R15 of specs/pyeffects.py (validated natively by the scenario corpus and the 27-program corpus), induction hypothesis on sub-terms (visit(hole)), CPython try/finally/with semantics. transform() is executed from its real body on fourteen sample objects (bounded, labelled) with inspect/compile/exec run natively.",
        technique=TECH),
    "C02": dict(category="proof", design_ref="DESIGN.md section 3 (C02), sections 5-6",
        text="Deductive: events(visit(s)) = the instrumented bindings of s in order with the bound value, for every binding form and capture subset (schemas), + interact/WorkingFrame/Immediate.log/trigger/_call_with_snapshot/Capture contracts (unbounded handlers), Probe._emit and SourceProxy._push fan-out (any number of observers).",
        note=TRUST + "binding forms are enumerated per syntactic form with opaque sub-terms; reduced capture-subset exploration for the root function schema (all/none/singletons/co-singletons).",
        technique=TECH),
    "C04": dict(category="proof", design_ref="DESIGN.md section 3 (C04), sections 5-6",
        text="Deductive: interact (last non-ABSENT intercept in registration order wins, declining leaves the value, OverrideException for non-overridable bindings, log receives the substituted value) for any number of handlers; BaseAccumulator.intercept (tentative capture exposed then removed); schema obligations: the right-hand side occurs once as the 4th argument of the interact whose result is stored; overlay activation order (plus appends).",
        note=TRUST + "reactivex pipeline of OverridableProbe assumed synchronous; override functions are opaque deterministic callbacks.",
        technique=TECH),
    "C06": dict(category="proof", design_ref="DESIGN.md section 3 (C06), sections 5-6",
        text="Deductive over schemas: function wrapper (with proceed / try / except BaseException as #error / finally #exit, #enter first), loop brackets (#loop_v / #endloop_v in try/finally for every target variable), return/yield rewriting (#value, #yield, #receive with tags), for every capture subset.",
        note=TRUST + "CPython semantics of try/finally and generator finalisation are trusted: the bracket lemma follows from the proved output structure.",
        technique=TECH),
    "C10": dict(category="proof", design_ref="DESIGN.md section 3 (C10), sections 5-6",
        text="Deductive: ExternalVariableCollector executed from its real body (NodeVisitor from the stdlib source) on every placement of a binding or read, compared with CPython's symtable; Call.problems/verify for ANY capture name (symbolic string); fits_selector; _tooler TypeError; autotool.",
        note=TRUST + "CPython symtable is the scoping oracle; the info table assembly inside transform() is assumed (keys = used|assigned). Placement programs are enumerated per form.",
        technique=TECH),
    "C11": dict(category="proof", design_ref="DESIGN.md section 3 (C11), sections 5-6",
        text="Deductive: match_tag/check_element (iff membership), tag-set algebra (commutative/associative/idempotent), get_tags, _TagFactory interning, should_instrument (per binding), annotation carried by each event (schemas), fits_selector generic branch, Call.problems tag branches.",
        note=TRUST + "tag alphabet of 3 names (the code never inspects names); _ann on the listed string forms with re.split executed natively (bounded, labelled).",
        technique=TECH),
    "C13": dict(category="proof", design_ref="DESIGN.md section 3 (C13), sections 5-6",
        text="Deductive: _resolve (method branch: underlying function through __wrapped__, receiver capture named after the first parameter, identity constraint for ANY receiver value incl. unhashable / custom __eq__), _dig, check_captures, InternedMC interning.",
        note=TRUST + "inspect.getfullargspec and bound-method attribute forwarding are assumed (CPython); decorator chains of length <= 3 (bounded).",
        technique=TECH),
    "C14": dict(category="other", design_ref="DESIGN.md section 3 (C14), sections 5-6",
        text="Deductive for the ptera side (refstring/_extract_info/_build_refstring per placement, dict_resolver slash branch, _apply informs the registry before the swap, variant functions marked discard) and for codefind.CodeRegistry.update_cache_entry/find_code interpreted from the installed source; the history-level claim is decided by a bounded native stand-in (5 placements x histories of length 3/5).",
        note=TRUST + "transform()'s exec / audit-hook interplay with codefind and gc.get_referrers are out of the verifier's reach: bounded native histories, labelled.",
        technique=TECH + "; bounded native history enumeration for the registry interplay"),
    "C15": dict(category="other", design_ref="DESIGN.md section 3 (C15), sections 5-6",
        text="Deductive: each documented equivalence is run through the REAL lexer, Parser.process and evaluation actions inside the verifier for every operand form of a small grammar (about 950 instances) and must yield the same object; interning proved for symbolic field values; whitespace invariance by a bounded native stand-in.",
        note=TRUST + "operand grammar and nesting depth are bounded (labelled); operand names are concrete representatives; re.match executed natively.",
        technique=TECH + " on token skeletons; bounded operand grammar"),
    "C16": dict(category="proof", design_ref="DESIGN.md section 3 (C16), sections 5-6",
        text="Deductive: interact never returns/logs ABSENT and raises PteraNameError(varname, fn) exactly when the value after interception is the marker (any number of handlers); schema obligations: the marker only flows into the 4th argument of an interact call; externals prelude.",
        note=TRUST + "as C01 for the schema part.",
        technique=TECH),
    "C18": dict(category="other", design_ref="DESIGN.md section 3 (C18), sections 5-6",
        text="Deductive: every evaluation action for every combination of operand kinds in both contexts (over-approximating all parse trees) returns a selector/list or raises SyntaxError; Evaluator dispatch; _select/_guarantee_call; Call.problems/verify for any name; probe construction refusals. Lexer/Parser.process termination and error class: bounded native stand-in (all strings <= 3/4 symbols + seeded longer ones).",
        note=TRUST + "lexer regexes and Parser.process on arbitrary token lists are only covered by the bounded native stand-in (labelled).",
        technique=TECH + "; bounded native string enumeration for lexer/parser"),
}
NOT_YET = {
}
NA = {
    "C08": "Quantifies over thread schedules; sequential pre/postconditions and loop invariants cannot express or decide interleavings, and no thread-aware deductive rule for Python is available here (DESIGN.md section 4).",
}
props = [json.loads(l)["id"] for l in open(os.path.join(ROOT, "properties.jsonl"))]
_kf = json.load(open(os.path.join(ROOT, "known_findings.json")))


def _suffix(pid):
    n_known = len([f for f in _kf["findings"] if f["property"] == pid])
    n_fixed = len([f for f in _kf["fixed"] if f"property={pid} " in f])
    n_seeded = len([d for d in os.listdir(os.path.join(ROOT, "seeded")) if d.split("-")[0].rstrip("abcdefghijklmnopqrstuvwxyz") == pid])
    return (f" Units labelled bounded, the native stand-ins and the scenario corpus (recorded scenarios and scenario oracles replayed natively on every run) are bounded checks and are not counted as proved."
            f" On the current tree: {n_known} recorded known finding(s) (printed as KNOWN-FINDING, see known_findings.json), {n_fixed} defect(s) of this property repaired in /repo;"
            f" {n_seeded} independently seeded property-breaking change(s) are all reported (canaries in the thorough tier).")
checks = []
for pid in props:
    if pid in CLAIMED:
        c = CLAIMED[pid]
        checks.append({
            "property_id": pid,
            "quick_cmd": f"./check {pid} quick",
            "thorough_cmd": f"./check {pid} thorough",
            "evidence_file": f"evidence/{pid}.json",
            "replay_cmd_template": "./check --replay {path}",
            "engine": "pvc",
            "level_claimed": {"category": c["category"], "text": c["text"] + _suffix(pid), "design_ref": c["design_ref"]},
            "level_note": c["note"],
            "technique": c["technique"],
        })
na = []
for pid in props:
    if pid in CLAIMED:
        continue
    if pid in NA:
        na.append({"property_id": pid, "reason": NA[pid]})
    else:
        na.append({"property_id": pid, "reason": NOT_YET.get(pid, "not claimed yet: the contracts for this property are not built in this revision (planned, see DESIGN.md section 5)")})
m = {
    "version": 1,
    "setup_cmd": "./setup.sh",
    "hooks": {"guard": "PTERA_VERIF", "enable": "no source hooks are needed: contracts are sidecar files under /verif/contracts and the real source is re-read on every run; checks export PTERA_VERIF=1 for uniformity",
              "baseline_off_cmd": "cd /repo && /venv/bin/python -m pytest -ra -q -p no:cacheprovider --timeout=900 --continue-on-collection-errors",
              "source_commits": [], "add_only": True},
    "engines": [{"name": "pvc", "path": "pvc/", "serves_properties": sorted(CLAIMED), "kind_free_text": "modular symbolic executor for a Python subset generating verification conditions from the real ptera source, discharged with z3 / cvc5"}],
    "checks": checks,
    "not_applicable": na,
    "notes": "See DESIGN.md. known_findings.json lists genuine defects recorded or fixed (75 unguarded fix: commits in /repo). BACKLOG.md lists agent-reported observations and their status.",
}
json.dump(m, open(os.path.join(ROOT, "MANIFEST.json"), "w"), indent=1)
print("claimed", sorted(CLAIMED), "not claimed", [x["property_id"] for x in na])
