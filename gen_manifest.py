#!/usr/bin/env python3
"""Regenerates MANIFEST.json from the table below (kept in one place so it is always valid)."""
import json, os
ROOT = os.path.dirname(os.path.abspath(__file__))
TECH = "contract-based deductive verification: AST->VC symbolic execution of the real functions + z3 (cvc5 cross-check in thorough)"
TRUST = "Trusted: pvc symbolic executor (Python-subset semantics, library models listed in the evidence), z3. "
CLAIMED = {
    "C03": dict(category="proof", design_ref="DESIGN.md section 5/C03",
        text="Deductive: HandlerCollection.proceed is proved for ANY number of pending (selector, accumulator) pairs against a closed-form loop invariant (next pairs, forks, registrations); fits_selector, register, fork, build, proceed.__enter__/__exit__ are under contract; the stack-step lemma connects the contract to the embedding count.",
        note=TRUST + "fits_selector/register are used by proceed through their contracts; fork of an opaque accumulator is an uninterpreted function of the history; ContextVar token semantics assumed. fits_selector, register and build are proved on concrete spines (bounded, labelled).",
        technique=TECH),
    "C05": dict(category="proof", design_ref="DESIGN.md section 5/C05",
        text="Deductive: StackedTransforms/SyncedStackedTransforms push/pop/get/_apply are proved to preserve the multiset invariant from an arbitrary well-formed state (hence after every history), TransformSet memo, _tooler/_untooler/autotool, BaseOverlay.__enter__/__exit__ (any number of handlers) and Probe enter/exit are under contract. Two genuine defects are recorded as known findings (non-LIFO exit, refused selector leaks tooling).",
        note=TRUST + "ContextVar token semantics, codefind registry and transform() are used through ghost events; capture tuples of length <= 2 over 3 elements per operation.",
        technique=TECH),
    "C07": dict(category="proof", design_ref="DESIGN.md section 5/C07",
        text="Deductive: Total.{__init__,accumulator_for,log,leaves,close}, Capture.accum, fork/build, proceed (template fork, close_at_exit, unbounded), Interactor.register/exit (exit: any number of accumulators) and proceed.__exit__ are under contract.",
        note=TRUST + "Total.close/leaves and build on concrete accumulator trees (<=2 leaves, depth<=3: bounded, labelled).",
        technique=TECH),
    "C09": dict(category="proof", design_ref="DESIGN.md section 5/C09",
        text="Deductive: proceed.__enter__/__exit__ contracts (restore on LIFO exit, interactor.exit exactly once, exceptions not swallowed); the non-LIFO clause demanded by the property fails on the real code and is recorded as a known finding with a native replay.",
        note=TRUST + "ContextVar token semantics assumed; generator suspension itself is CPython semantics (the segment obligation on the transformer output is part of the transformer contracts).",
        technique=TECH),
    "C12": dict(category="proof", design_ref="DESIGN.md section 5/C12",
        text="Deductive: obligations generated from the real bodies of Range/every/between/lt/gt/lte/gte/throttle, Selector.check_captures (two nested loop invariants, any number of constraints and values) and the BaseAccumulator filter wrapper/trigger/intercept path are discharged by z3 for all integers and all capture dictionaries.",
        note=TRUST + "match functions assumed pure predicates; handler callbacks opaque and deterministic. Bounded stand-in (labelled) only used when the loop structure of check_captures changes.",
        technique=TECH),
    "C17": dict(category="proof", design_ref="DESIGN.md section 5/C17",
        text="Deductive: Probe.__init__/_enter/_exit/_emit/_make_rule and giving.SourceProxy.__init__/_push/__enter__/__exit__ (interpreted from the installed giving/gvn.py) are executed symbolically through a full life-cycle history; _push/__exit__ fan-out proved for any number of observers.",
        note=TRUST + "reactivex operators (reductions publish one value on completion, subscribe calls make once) are assumed; autotool used through its contract.",
        technique=TECH),
}
NOT_YET = {
}
NA = {
    "C08": "Quantifies over thread schedules; sequential pre/postconditions and loop invariants cannot express or decide interleavings, and no thread-aware deductive rule for Python is available here (DESIGN.md section 6).",
}
props = [json.loads(l)["id"] for l in open(os.path.join(ROOT, "properties.jsonl"))]
checks = []
for pid in props:
    if pid in CLAIMED:
        c = CLAIMED[pid]
        checks.append({
            "property_id": pid,
            "quick_cmd": f"./check {pid} quick",
            "thorough_cmd": f"./check {pid} thorough",
            "evidence_file": f"evidence/{pid}.json",
            "replay_cmd_template": "./check --replay {path}",
            "engine": "pvc",
            "level_claimed": {"category": c["category"], "text": c["text"], "design_ref": c["design_ref"]},
            "level_note": c["note"],
            "technique": c["technique"],
        })
na = []
for pid in props:
    if pid in CLAIMED:
        continue
    if pid in NA:
        na.append({"property_id": pid, "reason": NA[pid]})
    else:
        na.append({"property_id": pid, "reason": NOT_YET.get(pid, "not claimed yet: the contracts for this property are not built in this revision (planned, see DESIGN.md section 5)")})
m = {
    "version": 1,
    "setup_cmd": "./setup.sh",
    "hooks": {"guard": "PTERA_VERIF", "enable": "no source hooks are needed: contracts are sidecar files under /verif/contracts and the real source is re-read on every run; checks export PTERA_VERIF=1 for uniformity",
              "baseline_off_cmd": "cd /repo && /venv/bin/python -m pytest -ra -q -p no:cacheprovider --timeout=900 --continue-on-collection-errors",
              "source_commits": [], "add_only": True},
    "engines": [{"name": "pvc", "path": "pvc/", "serves_properties": sorted(CLAIMED), "kind_free_text": "modular symbolic executor for a Python subset generating verification conditions from the real ptera source, discharged with z3 / cvc5"}],
    "checks": checks,
    "not_applicable": na,
    "notes": "See DESIGN.md. known_findings.json lists genuine defects recorded or fixed.",
}
json.dump(m, open(os.path.join(ROOT, "MANIFEST.json"), "w"), indent=1)
print("claimed", sorted(CLAIMED), "not claimed", [x["property_id"] for x in na])
