#!/bin/bash
# usage: tools_ingest.sh <pid> <name> [round-letter]   -- confirm a sub-agent's change in its scratch worktree, store it under seeded/, remove the worktree
set -u
pid=$1; name=$2; letter=${3:-d}
case $letter in d) wt=/tmp/wt4_$pid;; e) wt=/tmp/wt5_$pid;; f) wt=/tmp/wt6_$pid;; g) wt=/tmp/wt7_$pid;; h) wt=/tmp/wt8_$pid;; i) wt=/tmp/wt9_$pid;; j) wt=/tmp/wt10_$pid;; k) wt=/tmp/wt11_$pid;; esac
dest=/verif/seeded/${pid}${letter}-$name
cd $wt || exit 2
git diff -- ptera > /tmp/ingest_$pid.diff
[ -s /tmp/ingest_$pid.diff ] || cp patch.diff /tmp/ingest_$pid.diff
git checkout -- ptera
git apply /tmp/ingest_$pid.diff || { echo "patch does not apply"; exit 2; }
t=$(/venv/bin/python -m pytest -q -p no:cacheprovider tests 2>&1 | tail -1)
/venv/bin/python demo_$pid.py > /tmp/ingest_$pid.with 2>&1; w=$?
git checkout -- ptera
/venv/bin/python demo_$pid.py > /tmp/ingest_$pid.without 2>&1; wo=$?
echo "$pid $name: tests[$t] demo-with=$w demo-without=$wo"
if [[ "$t" == *"269 passed"* && $w -ne 0 && $wo -eq 0 ]]; then
  mkdir -p $dest
  cp /tmp/ingest_$pid.diff $dest/patch.diff
  cp demo_$pid.py $dest/demo_$pid.py
  echo CONFIRMED
  cd /; git -C /repo worktree remove --force $wt
else
  echo NOT-CONFIRMED; tail -5 /tmp/ingest_$pid.with /tmp/ingest_$pid.without
fi
rm -f /tmp/ingest_$pid.*
