#!/usr/bin/env python3
"""Maintenance: prints, per property, the contract units that take part in its check (from the `props` of every @unit) and the
obligation counts of the last quick run (evidence/<id>.json).  Used to regenerate the table of DESIGN.md section 3."""
import glob, json, os, re
ROOT = os.path.dirname(os.path.abspath(__file__))
units = {}
for f in sorted(glob.glob(os.path.join(ROOT, "contracts", "*.py"))):
    for m in re.finditer(r'@unit\("([^"]+)", \[([^\]]*)\](.*)', open(f).read()):
        props = [x.strip().strip('"') for x in m.group(2).split(",")]
        bounded = 'mode="bounded"' in m.group(3)
        for p in props:
            units.setdefault(p, []).append(m.group(1) + (" (bounded)" if bounded else ""))
cases = {}
src = open(os.path.join(ROOT, "replay", "known", "cases.py")).read()
for name, props in re.findall(r'"(\w+)": \[([^\]]*)\]', src[src.index("CASES = {"):]):
    for p in re.findall(r'"(C\d+)"', props):
        cases.setdefault(p, []).append(name)
seeded = {}
for d in sorted(os.listdir(os.path.join(ROOT, "seeded"))):
    seeded.setdefault(d.split("-")[0].rstrip("abcdefghijklmnopqrstuvwxyz"), []).append(d)
for p in sorted(units):
    ev = {}
    try:
        ev = json.load(open(os.path.join(ROOT, "evidence", p + ".json")))
    except OSError:
        pass
    cov = ev.get("coverage", {})
    print(f"**{p}** ({cov.get('obligations', '?')} obligations discharged by the solver in the quick tier; {len(cases.get(p, []))} scenarios and {len(seeded.get(p, []))} seeded demos replayed). "
          + "Units: " + ", ".join(f"`{u}`" if not u.endswith("(bounded)") else f"`{u[:-10]}` (bounded)" for u in units[p]) + ".\n")
