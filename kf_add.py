#!/usr/bin/env python3
"""Maintenance helper (never run by checks): kf_add.py <property> <obligation> <replay> <what_fails> [witness]"""
import json, sys
p = "/verif/known_findings.json"
d = json.load(open(p))
prop, ob, replay, what = sys.argv[1:5]
w = sys.argv[5] if len(sys.argv) > 5 else ""
d["findings"] = [f for f in d["findings"] if f["obligation"] != ob]
d["findings"].append({"property": prop, "obligation": ob, "witness_class": w, "what_fails": what, "replay": replay})
json.dump(d, open(p, "w"), indent=1)
